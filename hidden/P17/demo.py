"""Demo for property C17 (mGH accepts every graph representation).

The same three graphs are handed to persim.gromov_hausdorff
  (a) as nested lists,
  (b) as dense float64 arrays (the dtype np.zeros gives by default),
  (c) as CSR matrices,
once as a collection and then pair by pair on the very same objects.
For every pair the bounds must bracket the exact mGH distance (computed
here by brute force over all maps), the lower bounds must not depend on
the container, and the collection matrices must be symmetric with a zero
diagonal.

run:  cd <worktree> && PYTHONPATH=<worktree> /venv/bin/python /tmp/ref_P17/demo.py
Prints PASS and exits 0 if the property holds, FAIL and exits 1 otherwise.
"""
import itertools
import sys
import warnings

import numpy as np
import scipy.sparse as sps

from persim import gromov_hausdorff


def symmetric_adjacency(n, edges):
    A = np.zeros((n, n))                     # float64, C-contiguous
    for u, v in edges:
        A[u, v] = A[v, u] = 1
    return A


def metric(A):
    """All-pairs hop distances by plain BFS (independent of persim/scipy.csgraph)."""
    n = len(A)
    D = np.full((n, n), np.inf)
    for s in range(n):
        D[s, s] = 0
        frontier = [s]
        while frontier:
            nxt = []
            for u in frontier:
                for v in range(n):
                    if (A[u][v] or A[v][u]) and np.isinf(D[s, v]):
                        D[s, v] = D[s, u] + 1
                        nxt.append(v)
            frontier = nxt
    assert np.isfinite(D).all()
    return D


def min_distortion(DX, DY):
    best = np.inf
    n, m = len(DX), len(DY)
    for f in itertools.product(range(m), repeat=n):
        f = list(f)
        best = min(best, np.abs(DX - DY[np.ix_(f, f)]).max())
    return best


def exact_mgh(DX, DY):
    return 0.5 * max(min_distortion(DX, DY), min_distortion(DY, DX))


def main():
    graphs = [
        symmetric_adjacency(5, [(0, 1), (1, 2), (2, 3), (3, 4), (4, 0)]),        # cycle C5
        symmetric_adjacency(4, [(0, 1), (1, 2), (2, 3)]),                        # path  P4
        symmetric_adjacency(4, [(0, 1), (0, 2), (0, 3), (1, 2), (1, 3), (2, 3)]),  # clique K4
    ]
    names = ["C5", "P4", "K4"]
    metrics = [metric(A) for A in graphs]
    N = len(graphs)
    exact = np.zeros((N, N))
    for i in range(N):
        for j in range(i + 1, N):
            exact[i, j] = exact[j, i] = exact_mgh(metrics[i], metrics[j])

    containers = {
        "nested lists": [A.astype(int).tolist() for A in graphs],
        "dense float64": [A.copy() for A in graphs],
        "CSR": [sps.csr_matrix(A.astype(int)) for A in graphs],
    }
    problems = []
    lbs_by_container = {}
    with warnings.catch_warnings():
        warnings.simplefilter("error")            # connected graphs: no warning expected
        for label, As in containers.items():
            np.random.seed(0)
            lbs, ubs = gromov_hausdorff(As)
            lbs_by_container[label] = lbs
            if not (np.array_equal(lbs, lbs.T) and np.array_equal(ubs, ubs.T)):
                problems.append("%s: collection result not symmetric" % label)
            if np.any(np.diag(lbs) != 0) or np.any(np.diag(ubs) != 0):
                problems.append("%s: non-zero diagonal" % label)
            for i in range(N):
                for j in range(i + 1, N):
                    if not lbs[i, j] <= exact[i, j] <= ubs[i, j]:
                        problems.append(
                            "%s: collection bounds [%g, %g] for (%s, %s) do not bracket mGH = %g"
                            % (label, lbs[i, j], ubs[i, j], names[i], names[j], exact[i, j]))
            # the same objects again, pair by pair
            for i in range(N):
                for j in range(i + 1, N):
                    np.random.seed(1)
                    lb, ub = gromov_hausdorff(As[i], As[j])
                    if not lb <= exact[i, j] <= ub:
                        problems.append(
                            "%s: pair bounds [%g, %g] for (%s, %s) do not bracket mGH = %g"
                            % (label, lb, ub, names[i], names[j], exact[i, j]))
                    if lb != lbs[i, j]:
                        problems.append(
                            "%s: lower bound for (%s, %s) changed between calls: %g then %g"
                            % (label, names[i], names[j], lbs[i, j], lb))
    reference = lbs_by_container["nested lists"]
    for label, lbs in lbs_by_container.items():
        if not np.array_equal(lbs, reference):
            problems.append("lower bounds differ between nested lists and %s:\n%s\nvs\n%s"
                            % (label, reference, lbs))

    print("exact mGH distances:\n%s" % exact)
    for label, lbs in lbs_by_container.items():
        print("lower bounds, %s:\n%s" % (label, lbs))
    if problems:
        for p in problems:
            print("  - " + p)
        print("FAIL")
        return 1
    print("PASS")
    return 0


if __name__ == "__main__":
    sys.exit(main())
