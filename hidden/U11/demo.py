"""Demo for property C11 (persistence images are additive / call-style independent).

Run from inside the tree under test, e.g.
    cd /tmp/wt_U11 && PYTHONPATH=/tmp/wt_U11 /venv/bin/python /tmp/ref_U11/demo.py

An imager built with the default weight / kernel parameters produces images of
a few diagrams.  In between, a SECOND, unrelated imager is built and tuned in
place (``other.weight_params["n"] = 2`` - the documented "attributes can be
adjusted after instantiation").  Nothing is ever done to the first imager, so
its images of A, B and A u B must stay additive, and a diagram must give the
same image alone and inside a collection.
"""
import sys

import matplotlib

matplotlib.use("Agg")

import numpy as np

from persim import PersistenceImager

A = np.array([[0.10, 0.60], [0.30, 0.95], [0.55, 0.80]])
B = np.array([[0.20, 0.45], [0.05, 0.90]])
AB = np.vstack([A, B])

failures = []


def check(name, ok):
    print("  %-58s %s" % (name, "ok" if ok else "VIOLATED"))
    if not ok:
        failures.append(name)


imgr = PersistenceImager(pixel_size=0.25)
config_before = repr(imgr)

img_A = imgr.transform(A)
imgs_before = imgr.transform([A, B])

# an unrelated imager, tuned in place by the user
other = PersistenceImager(pixel_size=0.25)
other.weight_params["n"] = 2.0
other.kernel_params["sigma"] = 0.05

img_B = imgr.transform(B)
img_AB = imgr.transform(AB)
imgs_after = imgr.transform([A, B])
imgs_par = imgr.transform([A, B], n_jobs=2)

check("additive: image(A u B) == image(A) + image(B)", np.allclose(img_AB, img_A + img_B))
check("A alone == A inside a collection", np.allclose(img_A, imgs_after[0]))
check("repeated call gives the same images", np.allclose(imgs_before[0], imgs_after[0]) and np.allclose(imgs_before[1], imgs_after[1]))
check("serial == parallel", np.allclose(imgs_after[0], imgs_par[0]) and np.allclose(imgs_after[1], imgs_par[1]))
check("configuration of the first imager untouched", repr(imgr) == config_before)

# a freshly built default imager is the documented default one
fresh = PersistenceImager(pixel_size=0.25)
check("fresh default imager reproduces image(A)", np.allclose(fresh.transform(A), img_A))

if failures:
    print("FAIL")
    sys.exit(1)
print("PASS")
sys.exit(0)
