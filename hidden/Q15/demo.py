"""C15 demo: sliced Wasserstein is the average over the M sampled directions.

Run from inside the worktree:
    cd /tmp/wt_Q15 && PYTHONPATH=/tmp/wt_Q15 /venv/bin/python /tmp/ref_Q15/demo.py

Uses only the public call  persim.sliced_wasserstein(PD1, PD2, M)  and checks it,
for several numbers of directions M, against
  (a) an independent computation of the averaged 1-D transport cost,
  (b) the bound  SW <= 2 * W1  (persim.wasserstein),
  (c) agreement between different M (they all approximate the same integral),
  (d) symmetry / translation along the diagonal / linear scaling at M != 50.
Prints PASS and exits 0 if everything holds, prints FAIL and exits 1 otherwise.
"""
import sys
import warnings

import numpy as np

warnings.simplefilter("ignore")

import persim  # noqa: E402
from persim import sliced_wasserstein, wasserstein  # noqa: E402


def reference_sw(PD1, PD2, M):
    """average over M directions of the half circle of the 1-D transport cost between
    each diagram augmented with the diagonal projections of the other one"""
    PD1 = np.asarray(PD1, dtype=float).reshape(-1, 2)
    PD2 = np.asarray(PD2, dtype=float).reshape(-1, 2)
    mid1 = np.repeat(PD1.mean(axis=1, keepdims=True), 2, axis=1) if len(PD1) else PD1
    mid2 = np.repeat(PD2.mean(axis=1, keepdims=True), 2, axis=1) if len(PD2) else PD2
    A = np.vstack([PD1, mid2])
    B = np.vstack([PD2, mid1])
    total = 0.0
    for k in range(M):
        ang = -np.pi / 2 + k * np.pi / M
        u = np.array([np.cos(ang), np.sin(ang)])
        total += np.abs(np.sort(A @ u) - np.sort(B @ u)).sum()
    return total / M


rng = np.random.default_rng(15)
failures = []


def check(ok, msg):
    if not ok:
        failures.append(msg)


def random_diagram(n, shift=0.0):
    b = rng.uniform(0, 2, n) + shift
    return np.stack([b, b + rng.uniform(0.05, 1.5, n)], axis=1)


pairs = [
    (np.array([[0.5, 1.0], [0.6, 1.1]]), np.array([[0.6, 1.2]])),
    (random_diagram(5), random_diagram(3)),
    (random_diagram(4, shift=-3.0), random_diagram(6, shift=-3.0)),  # negative births
    (random_diagram(4), np.empty((0, 2))),                           # one empty diagram
    (np.array([[0, 2], [1, 4], [1, 4]]), np.array([[0, 3], [2, 3]])),  # integer, tied
]

for idx, (A, B) in enumerate(pairs):
    w1 = wasserstein(A, B)
    values = {}
    for M in (1, 4, 10, 25, 50, 100, 200):
        got = sliced_wasserstein(A, B, M)
        want = reference_sw(A, B, M)
        values[M] = got
        # (a) the definition (float32 directions in persim: allow 1e-5 relative)
        check(abs(got - want) <= 1e-5 * max(1.0, abs(want)),
              "pair %d, M=%d: sliced_wasserstein=%.6f but averaged 1-D transport cost=%.6f"
              % (idx, M, got, want))
        # (b) never more than twice the 1-Wasserstein distance
        check(got <= 2 * w1 * (1 + 1e-6) + 1e-9,
              "pair %d, M=%d: sliced_wasserstein=%.6f exceeds 2*W1=%.6f" % (idx, M, got, 2 * w1))
    # (c) finer samplings approximate the same integral over the half circle
    check(abs(values[100] - values[50]) <= 0.05 * values[50] + 1e-12,
          "pair %d: M=100 gives %.6f but M=50 gives %.6f" % (idx, values[100], values[50]))
    check(abs(values[200] - values[50]) <= 0.05 * values[50] + 1e-12,
          "pair %d: M=200 gives %.6f but M=50 gives %.6f" % (idx, values[200], values[50]))
    check(abs(values[25] - values[50]) <= 0.05 * values[50] + 1e-12,
          "pair %d: M=25 gives %.6f but M=50 gives %.6f" % (idx, values[25], values[50]))

# (d) relations between runs at a non-default M
A, B, C = random_diagram(5), random_diagram(4), random_diagram(6)
M = 20
dAB = sliced_wasserstein(A, B, M)
check(abs(dAB - sliced_wasserstein(B, A, M)) <= 1e-9, "not symmetric at M=20")
check(abs(sliced_wasserstein(A - 7.5, B - 7.5, M) - dAB) <= 1e-5 * max(1, dAB),
      "changed by a translation along the diagonal at M=20")
check(abs(sliced_wasserstein(3 * A, 3 * B, M) - 3 * dAB) <= 1e-5 * max(1, dAB),
      "does not scale linearly at M=20")
check(sliced_wasserstein(A, A[::-1].copy(), M) <= 1e-9, "reordering is not at distance 0 at M=20")
check(sliced_wasserstein(A, C, M) <= dAB + sliced_wasserstein(B, C, M) + 1e-9,
      "triangle inequality fails at M=20")

print("persim imported from", persim.__file__)
if failures:
    for msg in failures[:12]:
        print("  violated:", msg)
    if len(failures) > 12:
        print("  ... and %d more" % (len(failures) - 12))
    print("FAIL")
    sys.exit(1)
print("PASS")
sys.exit(0)
