"""C19 demo: the distances are pure and do not care how a diagram is stored.

A diagram and its own leading bars (a basic slice, i.e. a view of the same
memory) are compared.  The call must give the same value as with an
independent copy of the slice, and both arrays must be left exactly as they
were: same bytes, same flags, still writeable by their owner.
"""
import sys
import warnings

import numpy as np

import persim
from persim import bottleneck, wasserstein

warnings.simplefilter("ignore")


def state(a):
    return (a.tobytes(), a.dtype, a.shape, a.flags.writeable)


def check(name, fn, **kw):
    problems = []
    dgm = np.array([[0.0, 1.0], [0.5, 3.0], [1.0, 1.5], [2.0, 5.0], [2.5, 2.75]])
    top = dgm[:3]            # view of the first three bars
    top_copy = top.copy()    # equal-valued, independent storage
    before = (state(top), state(dgm))

    expected = fn(top_copy, dgm, **kw)
    try:
        got = fn(top, dgm, **kw)
    except Exception as exc:  # a pure function has no business failing here
        problems.append("%s(view, owner) raised %s: %s" % (name, type(exc).__name__, exc))
    else:
        pairs = zip(expected, got) if isinstance(expected, tuple) else [(expected, got)]
        same = all(np.array_equal(x, y) for x, y in pairs)
        if not same:
            problems.append("%s(view, owner) = %r, with a copy of the view %r" % (name, got, expected))
    if (state(top), state(dgm)) != before:
        problems.append("%s left its arguments changed: writeable flags now %s / %s"
                        % (name, top.flags.writeable, dgm.flags.writeable))
    try:
        dgm[0, 1] = 1.25     # the caller's own array must still be theirs to edit
    except ValueError as exc:
        problems.append("caller can no longer write to the diagram after %s: %s" % (name, exc))
    # the other argument order and the same object twice
    for a, b in ((dgm, dgm[:3]), (dgm, dgm)):
        s = (state(a), state(b))
        try:
            fn(a, b, **kw)
        except Exception as exc:
            problems.append("%s raised %s" % (name, type(exc).__name__))
        if (state(a), state(b)) != s:
            problems.append("%s changed its arguments" % name)
    return problems


def main():
    print("persim from", persim.__file__)
    problems = []
    problems += check("bottleneck", bottleneck)
    problems += check("bottleneck[matching]", bottleneck, matching=True)
    problems += check("wasserstein", wasserstein)
    problems += check("wasserstein[matching]", wasserstein, matching=True)
    for p in problems:
        print("  -", p)
    if problems:
        print("FAIL")
        return 1
    print("PASS")
    return 0


if __name__ == "__main__":
    sys.exit(main())
