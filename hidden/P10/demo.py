"""C10 demo: landscape p-norms equal the integrals they name.

Run from inside the tree under test, e.g.
    cd /tmp/wt_P10 && PYTHONPATH=/tmp/wt_P10 /venv/bin/python /tmp/ref_P10/demo.py

The oracle below integrates |f|^p for every depth of a landscape on its own
(segments are split at their zero, every one-signed piece has a closed form) and
never touches persim's norm code.  The landscapes are differences and linear
combinations of two diagrams whose outermost bar coincides, so the first depth of
the difference is identically zero while a deeper one is not.
"""
import sys
import warnings

import numpy as np

warnings.simplefilter("ignore")

from persim import PersLandscapeApprox, PersLandscapeExact


def piece(p, x0, y0, x1, y1):
    """integral of |y|^p on a segment that stays on one side of the axis"""
    a0, a1, w = abs(float(y0)), abs(float(y1)), float(x1) - float(x0)
    if a0 == a1:
        return a0**p * w
    return w * (a1 ** (p + 1) - a0 ** (p + 1)) / ((a1 - a0) * (p + 1))


def oracle_norm(p, functions):
    total = 0.0
    for f in functions:
        f = [(float(x), float(y)) for x, y in f]
        for (x0, y0), (x1, y1) in zip(f, f[1:]):
            if y0 * y1 < 0:  # split at the zero of the segment
                xz = x0 + (x1 - x0) * (-y0) / (y1 - y0)
                total += piece(p, x0, y0, xz, 0.0) + piece(p, xz, 0.0, x1, y1)
            else:
                total += piece(p, x0, y0, x1, y1)
    return total ** (1.0 / p)


def oracle_sup(functions):
    return max(abs(float(y)) for f in functions for _, y in f)


def functions_of(L):
    if isinstance(L, PersLandscapeExact):
        return L.critical_pairs
    grid = np.linspace(L.start, L.stop, L.num_steps)
    return [list(zip(grid, row)) for row in L.values]


failures = []


def check(label, L):
    fs = functions_of(L)
    for p in (1, 2, 3.5, 7):
        got, want = float(L.p_norm(p=p)), oracle_norm(p, fs)
        ok = np.isfinite(got) and abs(got - want) <= 1e-9 * max(1.0, abs(want))
        if not ok:
            failures.append(f"{label}: p={p}: p_norm={got!r}, integral says {want!r}")
    got, want = float(L.sup_norm()), oracle_sup(fs)
    if abs(got - want) > 1e-12 * max(1.0, want):
        failures.append(f"{label}: sup_norm={got!r}, max |f| is {want!r}")


d1 = [np.array([[0.0, 4.0], [1.0, 3.0]])]
d2 = [np.array([[0.0, 4.0], [1.5, 2.5]])]
d3 = [np.array([[0.5, 3.5], [1.0, 4.5], [2.0, 3.25]])]

# exact landscapes
P, Q, R = (PersLandscapeExact(dgms=d, hom_deg=0) for d in (d1, d2, d3))
check("exact P", P)
check("exact P-R (sign changes)", P - R)
check("exact P-Q (depth 0 cancels)", P - Q)
check("exact Q-P", Q - P)
check("exact 2.5*P - 2.5*Q", 2.5 * P - 2.5 * Q)
check("exact 0*R + (P-Q)", 0 * R + (P - Q))

# grid landscapes on a common grid; the step is 1/8 and every bar ends on a grid
# point, so the sampled values and their differences are exact binary fractions
kw = dict(start=0.0, stop=8.0, num_steps=65, hom_deg=0)
A, B, C = (PersLandscapeApprox(dgms=d, **kw) for d in (d1, d2, d3))
check("grid A", A)
check("grid A-C (sign changes)", A - C)
check("grid A-B (depth 0 cancels)", A - B)
check("grid B-A", B - A)
check("grid (A-B)/4 + (A-B)", (A - B) / 4 + (A - B))

# consequences named by the property
D = P - Q
if not D.p_norm(p=2) > 0:
    failures.append("exact: ||P-Q||_2 is 0 although P != Q (sup norm %r)" % float(D.sup_norm()))
if not abs((3 * D).p_norm(p=2) - 3 * oracle_norm(2, D.critical_pairs)) < 1e-9:
    failures.append("exact: ||3(P-Q)||_2 is not 3 * integral norm of P-Q")

if failures:
    print("FAIL")
    for f in failures:
        print("  " + f)
    sys.exit(1)
print("PASS")
sys.exit(0)
