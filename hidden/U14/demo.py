"""
Property C14: the heat-kernel distance equals
    sqrt(k(F,F) + k(G,G) - 2 k(F,G))
for the multi-scale kernel k, and is a pseudo-metric (triangle inequality).

Run from inside the worktree:
  cd /tmp/wt_U14 && PYTHONPATH=/tmp/wt_U14 /venv/bin/python /tmp/ref_U14/demo.py
"""
import sys
import warnings

import numpy as np

warnings.simplefilter("ignore")
from persim import heat


def kernel(F, G, sigma):
    """Reference multi-scale kernel (Reininghaus et al. 2015), vectorised."""
    F = np.asarray(F, dtype=float).reshape(-1, 2)
    G = np.asarray(G, dtype=float).reshape(-1, 2)
    if len(F) == 0 or len(G) == 0:
        return 0.0
    d = ((F[:, None, :] - G[None, :, :]) ** 2).sum(-1)
    dm = ((F[:, None, :] - G[None, :, ::-1]) ** 2).sum(-1)
    return float((np.exp(-d / (8 * sigma)) - np.exp(-dm / (8 * sigma))).sum() / (8 * np.pi * sigma))


def reference(F, G, sigma):
    return np.sqrt(max(kernel(F, F, sigma) + kernel(G, G, sigma) - 2 * kernel(F, G, sigma), 0.0))


F = np.array([[0.0, 1.0], [0.5, 2.5], [1.0, 1.2]])
G = np.array([[0.1, 1.4], [2.0, 3.0]])
E = np.zeros((0, 2))  # e.g. the H1 diagram of a point cloud without loops

failures = []
for sigma in (0.4, 1.0, 0.05):
    for name, (A, B) in {
        "d(F,G)": (F, G),
        "d(F,empty)": (F, E),
        "d(empty,G)": (E, G),
        "d(F,[])": (F, []),
        "d(empty,empty)": (E, E),
    }.items():
        got = float(heat(A, B, sigma=sigma))
        want = reference(A, B, sigma)
        ok = np.isfinite(got) and abs(got - want) <= 1e-9 * max(1.0, want)
        print("sigma=%-5g %-15s heat=%.12g  reference=%.12g  %s" % (sigma, name, got, want, "ok" if ok else "WRONG"))
        if not ok:
            failures.append((sigma, name))
    # triangle inequality through the empty diagram
    dFG = float(heat(F, G, sigma=sigma))
    via = float(heat(F, E, sigma=sigma)) + float(heat(E, G, sigma=sigma))
    ok = dFG <= via + 1e-12
    print("sigma=%-5g triangle: d(F,G)=%.6g <= d(F,empty)+d(empty,G)=%.6g  %s" % (sigma, dFG, via, "ok" if ok else "VIOLATED"))
    if not ok:
        failures.append((sigma, "triangle"))

if failures:
    print("FAIL", failures)
    sys.exit(1)
print("PASS")
sys.exit(0)
