"""Demo for property C19 (public API is pure, repeatable, representation-independent)
on persim.PersistenceImager.fit.

Run from inside the worktree so that the worktree copy of persim is imported:

    cd /tmp/wt_Q19 && PYTHONPATH=/tmp/wt_Q19 /venv/bin/python /tmp/ref_Q19/demo.py

Prints PASS and exits 0 when fit() leaves its argument alone and the usual
fit -> transform sequence is repeatable; prints FAIL and exits 1 otherwise.
"""
import copy
import sys

import matplotlib

matplotlib.use("Agg")
import numpy as np

import persim
from persim import PersistenceImager

print("persim imported from", persim.__file__)

failures = []


def check(label, ok, detail=""):
    print("  [%s] %s%s" % ("ok" if ok else "BROKEN", label, (" -- " + detail) if detail and not ok else ""))
    if not ok:
        failures.append(label)


def pristine():
    """A collection of two diagrams in birth-death coordinates."""
    return [
        np.array([[0.5, 0.8], [0.7, 2.2], [2.5, 4.0]]),
        np.array([[0.1, 0.2], [3.1, 3.3], [1.6, 2.9]]),
    ]


def new_imager():
    return PersistenceImager(pixel_size=0.5)


def ranges(imager):
    return (tuple(map(float, imager.birth_range)), tuple(map(float, imager.pers_range)), imager.resolution)


# reference: every call gets its own deep copy of the data, so nothing one
# call does to its argument can leak into the next one
ref_imager = new_imager()
ref_imager.fit(copy.deepcopy(pristine()))
ref_ranges = ranges(ref_imager)
ref_imgs = ref_imager.transform(copy.deepcopy(pristine()))

# 1. purity: fit() must not modify the list (or the arrays) it is given
dgms = pristine()
slots_before = list(dgms)
bytes_before = [d.tobytes() for d in dgms]
imager = new_imager()
imager.fit(dgms)
check("fit(list) keeps the same array objects in the caller's list",
      len(dgms) == len(slots_before) and all(a is b for a, b in zip(dgms, slots_before)))
check("fit(list) leaves the diagram values in the caller's list unchanged",
      all(np.array_equal(a, b) for a, b in zip(dgms, pristine())),
      "list now holds %s" % [d.tolist() for d in dgms])
check("fit(list) leaves the caller's arrays byte-identical",
      [d.tobytes() for d in slots_before] == bytes_before)
check("fit(list) gives the reference ranges", ranges(imager) == ref_ranges)

# 2. repeatability: fit -> transform on the same list (the usual workflow),
#    and fitting a second time, give the same answers as with fresh data
imgs = imager.transform(dgms)
check("fit(dgms); transform(dgms) equals the reference images",
      all(np.array_equal(a, b) for a, b in zip(imgs, ref_imgs)),
      "max abs difference %.3g" % max(np.abs(a - b).max() for a, b in zip(imgs, ref_imgs)))
imager.fit(dgms)
check("a second fit(dgms) gives the same ranges as the first", ranges(imager) == ref_ranges,
      "%s != %s" % (ranges(imager), ref_ranges))

# 3. representation independence of the collection: a 3-D array holding the
#    same two diagrams
stacked = np.stack(pristine())
stacked_before = stacked.copy()
imager3 = new_imager()
imager3.fit(stacked)
check("fit(3-D array) gives the reference ranges", ranges(imager3) == ref_ranges)
check("fit(3-D array) leaves the array unchanged", np.array_equal(stacked, stacked_before))

if failures:
    print("FAIL (%d checks broken)" % len(failures))
    sys.exit(1)
print("PASS")
sys.exit(0)
