"""C09 demo: grid-landscape arithmetic must be pointwise at every depth,
a missing depth counting as the zero function, operands left untouched.

Run from inside the tree under test:
    cd <tree> && PYTHONPATH=<tree> /venv/bin/python /tmp/ref_N09/demo.py
Prints PASS / exits 0 when the property holds, FAIL / exits 1 otherwise.
"""
import sys
import warnings

import matplotlib

matplotlib.use("Agg")
warnings.simplefilter("ignore")

import numpy as np

from persim.landscapes import PersLandscapeApprox, average_approx, lc_approx

GRID = dict(start=0, stop=5, num_steps=6)


def depth(pl, k):
    """k-th sampled landscape function, the zero function beyond max depth."""
    vals = np.asarray(pl.values, dtype=float)
    return vals[k] if k < len(vals) else np.zeros(vals.shape[1])


def pointwise(result, expected_fn, n_depths):
    return all(
        np.allclose(depth(result, k), expected_fn(k)) for k in range(n_depths + 1)
    )


failures = []


def check(name, ok):
    print(f"  {'ok  ' if ok else 'BAD '} {name}")
    if not ok:
        failures.append(name)


# shallow: one depth; deep: two depths (built from values and from a diagram)
shallow = PersLandscapeApprox(values=np.array([[0.0, 1, 2, 2, 1, 0]]), **GRID)
deep = PersLandscapeApprox(
    values=np.array([[0.0, 2, 3, 3, 2, 0], [0, 0, 1, 1, 0, 0]]), **GRID
)
deep_dgm = PersLandscapeApprox(dgms=[np.array([[0, 5], [1, 4]])], **GRID)
before = [pl.values.copy() for pl in (shallow, deep, deep_dgm)]

# deeper operand on the left (the only shape the test-suite exercises)
check(
    "deep + shallow",
    pointwise(deep + shallow, lambda k: depth(deep, k) + depth(shallow, k), 2),
)
check(
    "deep - shallow",
    pointwise(deep - shallow, lambda k: depth(deep, k) - depth(shallow, k), 2),
)
# deeper operand on the right
check(
    "shallow + deep",
    pointwise(shallow + deep, lambda k: depth(shallow, k) + depth(deep, k), 2),
)
check(
    "shallow - deep",
    pointwise(shallow - deep, lambda k: depth(shallow, k) - depth(deep, k), 2),
)
check(
    "shallow + deep (from diagram)",
    pointwise(
        shallow + deep_dgm, lambda k: depth(shallow, k) + depth(deep_dgm, k), 2
    ),
)
check(
    "addition commutes",
    np.array_equal((shallow + deep).values, (deep + shallow).values),
)
check(
    "lc_approx([shallow, deep], [2, -1])",
    pointwise(
        lc_approx([shallow, deep], [2, -1]),
        lambda k: 2 * depth(shallow, k) - depth(deep, k),
        2,
    ),
)
check(
    "average_approx([shallow, deep])",
    pointwise(
        average_approx([shallow, deep]),
        lambda k: (depth(shallow, k) + depth(deep, k)) / 2,
        2,
    ),
)
check(
    "operands untouched",
    all(
        np.array_equal(b, pl.values)
        for b, pl in zip(before, (shallow, deep, deep_dgm))
    ),
)

if failures:
    print("shallow + deep gives\n", (shallow + deep).values)
    print("expected\n", deep.values + np.pad(shallow.values, ((0, 1), (0, 0))))
    print("FAIL")
    sys.exit(1)
print("PASS")
sys.exit(0)
