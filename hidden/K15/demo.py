"""C15 demo: sliced Wasserstein scales linearly and is unchanged by a
translation of both diagrams along the diagonal.

Prints PASS / exits 0 when both relations hold, FAIL / exits 1 otherwise.
Run from inside the worktree:
    cd /tmp/wt_K15 && PYTHONPATH=/tmp/wt_K15 /venv/bin/python /tmp/ref_K15/demo.py
"""
import sys
import warnings

warnings.simplefilter("ignore")
import numpy as np
from persim import sliced_wasserstein

failures = []


def check(name, got, want, rel):
    ok = abs(got - want) <= rel * abs(want)
    print("%-58s got %.6e  want %.6e  %s" % (name, got, want, "ok" if ok else "VIOLATED"))
    if not ok:
        failures.append(name)


D1 = np.array([[0.5, 1.0], [0.6, 1.1], [-0.3, 0.2]])
D2 = np.array([[0.5, 1.1], [-0.25, 0.4]])  # unequal sizes, a negative birth

for M in (7, 50):
    base = sliced_wasserstein(D1, D2, M)

    # 1. linear scaling: sw(c*D1, c*D2) == c * sw(D1, D2), also for tiny c
    for c in (1e3, 1e-6, 1e-9, 1e-12):
        got = sliced_wasserstein(c * D1, c * D2, M)
        check("M=%d scale c=%g" % (M, c), got, c * base, 1e-6)

# 2. translation along the diagonal: two close diagrams moved far away from
#    (and across) the origin keep their distance.  The library rounds its
#    direction vectors to float32, which costs about 2e-8 * |t| in absolute
#    terms, hence the 5% allowance for a distance of ~3e-4 at |t| = 100.
E1 = np.array([[0.5, 1.0], [0.7, 1.6]])
E2 = np.array([[0.5, 1.0003], [0.7002, 1.6]])
for M in (7, 50):
    base = sliced_wasserstein(E1, E2, M)
    for t in (100.0, -100.0):
        got = sliced_wasserstein(E1 + t, E2 + t, M)
        check("M=%d translate t=%g" % (M, t), got, base, 0.05)

# 3. a tiny diagram is not at distance zero from the empty diagram
tiny = np.array([[0.0, 2e-9]])
empty = np.zeros((0, 2))
ref = sliced_wasserstein(1e9 * tiny, empty) / 1e9
check("tiny diagram vs empty diagram", sliced_wasserstein(tiny, empty), ref, 1e-6)

if failures:
    print("FAIL (%d violated: %s)" % (len(failures), "; ".join(failures)))
    sys.exit(1)
print("PASS")
sys.exit(0)
