"""
Demo for property C01 (bottleneck distance is the true min-max matching cost;
points with infinite death are dropped with a warning and do not influence
the value; empty diagrams are fine).

Run from inside the worktree so that the local copy of persim is imported:
    cd /tmp/wt_T01 && PYTHONPATH=/tmp/wt_T01 /venv/bin/python /tmp/ref_T01/demo.py
Prints PASS and exits 0 when every case agrees with a brute-force reference,
prints FAIL and exits 1 otherwise.
"""
import sys
import warnings

import numpy as np

from persim import bottleneck


def brute_force(dgm1, dgm2):
    """min over all partial pairings of the largest cost (independent of persim)"""
    S = [tuple(p[:2]) for p in np.asarray(dgm1, dtype=float).reshape(-1, 2) if np.isfinite(p[1])]
    T = [tuple(p[:2]) for p in np.asarray(dgm2, dtype=float).reshape(-1, 2) if np.isfinite(p[1])]

    def to_diag(p):
        return 0.5 * (p[1] - p[0])

    def linf(p, q):
        return max(abs(p[0] - q[0]), abs(p[1] - q[1]))

    def rec(i, free):
        if i == len(S):
            return max([0.0] + [to_diag(T[j]) for j in free])
        best = max(to_diag(S[i]), rec(i + 1, free))
        for j in free:
            best = min(best, max(linf(S[i], T[j]), rec(i + 1, free - {j})))
        return best

    return rec(0, frozenset(range(len(T))))


inf = np.inf
cases = [
    # (name, dgm1, dgm2)
    ("plain", [[0.0, 1.0], [0.5, 2.5]], [[0.1, 1.2], [3.0, 3.5], [0.4, 2.0]]),
    ("essential class last", [[0.0, 1.0], [0.0, 2.0], [0.0, inf]], [[0.0, 1.5], [0.0, inf]]),
    ("essential class first", [[0.0, inf], [0.0, 1.0], [0.0, 2.0]], [[0.0, inf], [0.0, 1.5]]),
    ("only essential vs finite", [[0.0, inf]], [[1.0, 2.0], [0.0, 3.0]]),
    ("empty vs finite", np.empty((0, 2)), [[1.0, 2.0]]),
    ("empty vs empty", np.empty((0, 2)), np.empty((0, 2))),
    ("only essential vs empty", [[0.0, inf]], np.empty((0, 2))),
    # H0 of two connected spaces: each diagram is just its essential class
    ("only essential vs only essential", [[0.0, inf]], [[0.0, inf]]),
    ("only essential (2) vs only essential (3)", [[0.0, inf], [0.2, inf]], [[0.0, inf], [0.1, inf], [0.3, inf]]),
]

failures = []
for name, a, b in cases:
    expected = brute_force(a, b)
    try:
        with warnings.catch_warnings(record=True) as caught:
            warnings.simplefilter("always")
            got = bottleneck(np.array(a, dtype=float), np.array(b, dtype=float))
    except Exception as exc:  # the property promises a value here
        failures.append("{}: expected {!r}, raised {}: {}".format(name, expected, type(exc).__name__, exc))
        continue
    n_inf = sum(np.isinf(np.asarray(x, dtype=float).reshape(-1, 2)[:, 1]).any() for x in (a, b))
    n_warn = sum("non-finite death" in str(w.message) for w in caught)
    if not np.isclose(got, expected, rtol=1e-12, atol=0.0):
        failures.append("{}: expected {!r}, got {!r}".format(name, expected, got))
    elif n_warn != n_inf:
        failures.append("{}: expected {} warnings, got {}".format(name, n_inf, n_warn))

if failures:
    print("FAIL")
    for f in failures:
        print("  " + f)
    sys.exit(1)
print("PASS ({} cases agree with the brute-force min-max matching cost)".format(len(cases)))
sys.exit(0)
