"""Demo for C03: the exact landscape equals the k-th-largest-tent definition.

Run from inside the worktree so that its copy of persim is imported:

    cd /tmp/wt_Q03 && PYTHONPATH=/tmp/wt_Q03 /venv/bin/python /tmp/ref_Q03/demo.py

Prints PASS / exits 0 when the critical pairs of PersLandscapeExact, linearly
interpolated, agree with  k-th largest of max(0, min(t-b, d-t))  on a dense set
of t for every depth k, for a handful of small diagrams WITHOUT repeated bars,
each given in several input orders and as float64 / int64 / list input.
Prints FAIL / exits 1 otherwise.
"""
import itertools
import sys
import warnings

import numpy as np

warnings.simplefilter("ignore")

from persim import PersLandscapeExact  # noqa: E402


def truth(bars, k, t):
    vals = sorted((max(0.0, min(t - b, d - t)) for b, d in bars), reverse=True)
    return vals[k] if k < len(vals) else 0.0


def evaluate(pairs, t):
    xs = [float(p[0]) for p in pairs]
    ys = [float(p[1]) for p in pairs]
    if not xs or t <= xs[0] or t >= xs[-1]:
        return 0.0
    return float(np.interp(t, xs, ys))


def sample_points(bars):
    ends = sorted({float(x) for bar in bars for x in bar})
    ts = {ends[0] - 1.0, ends[-1] + 1.0}
    for lo, hi in zip(ends, ends[1:]):
        # strictly inside the cells between endpoints / midpoints: no breakpoints here
        for f in (0.13, 0.37, 0.61, 0.89):
            ts.add(lo + f * (hi - lo))
    return sorted(ts)


def violations(bars, critical_pairs):
    out = []
    for k in range(len(bars) + 1):
        pairs = critical_pairs[k] if k < len(critical_pairs) else []
        xs = [p[0] for p in pairs]
        if xs != sorted(xs):
            out.append((k, "abscissae not ordered"))
            continue
        for t in sample_points(bars):
            want, got = truth(bars, k, t), evaluate(pairs, t)
            if abs(want - got) > 1e-9:
                out.append((k, t, want, got))
                break
    return out


# diagrams without repeated bars (also none created during the sweep)
DIAGRAMS = [
    [(1.0, 5.0), (2.0, 8.0), (3.0, 4.0), (5.0, 9.0), (6.0, 7.0)],  # the textbook example
    [(0.0, 4.0), (1.0, 2.0)],  # nested
    [(0.0, 2.0), (1.0, 3.0)],  # overlapping
    [(0.0, 1.0), (2.0, 3.0), (1.0, 2.0)],  # touching / disjoint
    [(0.0, 6.0), (1.0, 3.0), (2.0, 7.0)],
    [(-3.0, 1.0), (-2.0, 4.0), (0.0, 2.0), (3.0, 5.0)],
]

failures = []
checked = 0
for bars in DIAGRAMS:
    for order in itertools.permutations(bars):
        order = list(order)
        inputs = {
            "float64 array": np.array(order, dtype=float),
            "int64 array": np.array(order, dtype=np.int64),
            "list of lists": [list(b) for b in order],
        }
        for kind, dgm in inputs.items():
            P = PersLandscapeExact(dgms=[dgm], hom_deg=0)
            bad = violations(order, P.critical_pairs)
            checked += 1
            if bad:
                failures.append((kind, order, bad[0], P.critical_pairs))

print(f"persim from {sys.modules['persim'].__file__}")
print(f"{checked} landscapes compared with the definition, {len(failures)} disagree")
for kind, order, bad, cps in failures[:3]:
    print(f"  input ({kind}) {order}")
    print(f"    depth {bad[0]}: {bad[1:]}   [t, expected, got]")
    print(f"    critical_pairs = {cps}")
if failures:
    kinds = sorted({f[0] for f in failures})
    print(f"  failing input kinds: {kinds}")
    print("FAIL")
    sys.exit(1)
print("PASS")
sys.exit(0)
