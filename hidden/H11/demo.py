"""Demo for property C11 (persistence images are additive, order-free and
call-style independent).

Run from inside the worktree:
    cd /tmp/wt_H11 && PYTHONPATH=/tmp/wt_H11 /venv/bin/python /tmp/ref_H11/demo.py

Prints PASS and exits 0 when the property holds on the probe inputs,
prints FAIL and exits 1 otherwise.
"""
import os
import sys
import warnings

os.environ["PYTHONWARNINGS"] = "ignore"  # also silences the joblib workers
warnings.filterwarnings("ignore")

import matplotlib

matplotlib.use("Agg")

import numpy as np

from persim import PersistenceImager

TOL = 1e-12
failures = []


def check(name, got, want):
    err = float(np.max(np.abs(np.asarray(got) - np.asarray(want))))
    ok = err <= TOL
    print("  [%s] %-58s max|diff| = %.3e" % ("ok" if ok else "XX", name, err))
    if not ok:
        failures.append(name)


def imager():
    return PersistenceImager(
        birth_range=(0.0, 1.0),
        pers_range=(0.0, 1.0),
        pixel_size=0.1,
        kernel_params={"sigma": 0.01},
    )


# birth-death diagram whose FIRST pair sits on the diagonal (persistence 0,
# hence weight 0 under the default 'persistence' weight)
diag_pt = np.array([[0.2, 0.2]])
off_diag = np.array([[0.1, 0.7], [0.5, 0.9]])
A = np.vstack([diag_pt, off_diag])
B = np.array([[0.3, 0.6], [0.6, 0.6], [0.7, 0.8]])

pim = imager()
img_A = pim.transform(A)
img_off = pim.transform(off_diag)
img_B = pim.transform(B)

print("zero-weight pairs / ordering / additivity (default weight, skew=True)")
check("zero-weight pair contributes nothing", img_A, img_off)
check("order of points irrelevant (reversed)", pim.transform(A[::-1]), img_A)
check("order of points irrelevant (diagonal pair last)",
      pim.transform(np.vstack([off_diag, diag_pt])), img_A)
check("image of union = sum of images", pim.transform(np.vstack([A, B])), img_A + img_B)
check("pixel total <= total weight",
      max(img_A.sum() - (A[:, 1] - A[:, 0]).sum(), 0.0), 0.0)

print("call-style independence")
coll = pim.transform([B, A, np.zeros((0, 2))])
check("alone vs inside a collection", coll[1], img_A)
check("empty diagram inside a collection is all-zero", coll[2], np.zeros(pim.resolution))
A_bp = np.column_stack([A[:, 0], A[:, 1] - A[:, 0]])
check("birth-death (skew=True) vs birth-persistence (skew=False)",
      pim.transform(A_bp, skew=False), img_A)
par = pim.transform([B, A], n_jobs=2)
check("serial vs n_jobs=2", par[1], img_A)

print("same with the linear_ramp weight (zero below start)")
ramp = PersistenceImager(
    birth_range=(0.0, 1.0),
    pers_range=(0.0, 1.0),
    pixel_size=0.1,
    weight="linear_ramp",
    weight_params={"low": 0.0, "high": 1.0, "start": 0.0, "end": 1.0},
    kernel="uniform",
    kernel_params={"width": 0.2, "height": 0.2},
)
check("ramp: zero-weight pair contributes nothing", ramp.transform(A), ramp.transform(off_diag))
check("ramp: order of points irrelevant", ramp.transform(A[::-1]), ramp.transform(A))

if failures:
    print("FAIL (%d checks violated: %s)" % (len(failures), "; ".join(failures)))
    sys.exit(1)
print("PASS")
sys.exit(0)
