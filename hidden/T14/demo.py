"""
Demo for property C14 (heat-kernel distance is a pseudo-metric, equal to
sqrt(k(F,F)+k(G,G)-2k(F,G)) for every scale, zero between a diagram and any
reordering of itself, bounded by W1/(4*sigma*sqrt(pi))).

Run from inside the worktree:
    cd /tmp/wt_T14 && PYTHONPATH=/tmp/wt_T14 /venv/bin/python /tmp/ref_T14/demo.py

The distance is requested at several scales through every spelling the
installed persim.heat accepts: the third positional argument, sigma=..., and -
when the signature has it - the keyword scale=... .
"""
import inspect
import sys
import warnings

import numpy as np

import persim
from persim import heat, wasserstein

warnings.simplefilter("ignore")


def kernel(F, G, s):
    """Reference multi-scale kernel of Reininghaus et al., vectorised."""
    F = np.asarray(F, dtype=float).reshape(-1, 2)
    G = np.asarray(G, dtype=float).reshape(-1, 2)
    d = ((F[:, None, :] - G[None, :, :]) ** 2).sum(-1)
    dm = ((F[:, None, :] - G[None, :, ::-1]) ** 2).sum(-1)
    return (np.exp(-d / (8 * s)) - np.exp(-dm / (8 * s))).sum() / (8 * np.pi * s)


def reference(F, G, s):
    return np.sqrt(max(kernel(F, F, s) + kernel(G, G, s) - 2 * kernel(F, G, s), 0.0))


spellings = {
    "positional": lambda a, b, s: heat(a, b, s),
    "sigma=": lambda a, b, s: heat(a, b, sigma=s),
}
if "scale" in inspect.signature(heat).parameters:
    spellings["scale="] = lambda a, b, s: heat(a, b, scale=s)

rng = np.random.default_rng(7)


def diagram(n):
    b = rng.uniform(-1, 2, size=n)
    return np.stack([b, b + rng.uniform(0.05, 2, size=n)], axis=1)


failures = []


def check(ok, what):
    if not ok:
        failures.append(what)


# the default scale, no third argument at all
X = diagram(5)
Y = diagram(4)
check(abs(heat(X, Y) - reference(X, Y, 0.4)) < 1e-9, "default scale: formula")
check(heat(X, X[::-1]) < 1e-7, "default scale: reordering")

for name, d in spellings.items():
    for s in (0.05, 0.4, 1.0, 3.0):
        for trial in range(6):
            F, G, H = diagram(4), diagram(3), diagram(5)
            tag = "%s scale=%g" % (name, s)
            dFG = d(F, G, s)
            check(np.isfinite(dFG) and dFG >= 0, tag + ": finite, non-negative")
            check(abs(dFG - reference(F, G, s)) < 1e-9, tag + ": formula (%r vs %r)" % (dFG, reference(F, G, s)))
            check(abs(dFG - d(G, F, s)) < 1e-9, tag + ": symmetry")
            check(d(F, F[rng.permutation(len(F))], s) < 1e-7, tag + ": zero on a reordering")
            check(d(F, H, s) <= dFG + d(G, H, s) + 1e-9, tag + ": triangle inequality")
            onDiag = np.vstack([F, [[0.3, 0.3], [1.5, 1.5]]])
            check(abs(d(onDiag, G, s) - dFG) < 1e-9, tag + ": diagonal points ignored")
            check(abs(d(F + 2.5, G + 2.5, s) - dFG) < 1e-9, tag + ": translation along the diagonal")
            near = F + 1e-3 * rng.normal(size=F.shape)
            bound = wasserstein(F, near) / (4 * s * np.sqrt(np.pi))
            check(d(F, near, s) <= bound * (1 + 1e-6) + 1e-9, tag + ": stability (%r > %r)" % (d(F, near, s), bound))

if failures:
    print("persim from", persim.__file__)
    for f in sorted(set(failures))[:12]:
        print("  violated:", f)
    print("FAIL")
    sys.exit(1)
print("PASS")
sys.exit(0)
