"""C17 demo: a collection call of persim.gromov_hausdorff must return symmetric
matrices with zero diagonal whose entries bracket each pairwise mGH distance,
with the same lower bounds as the corresponding pair calls.

Path graphs P_n are used because a lot is known about them: the metric space
of P_n has diameter n - 1, and mGH(X, Y) >= |diam X - diam Y| / 2, so for two
paths of different length the true distance is at least half the difference
of the lengths - an upper bound below that is not an upper bound.

Run from the root of the tree under test with PYTHONPATH pointing at it.
Prints PASS and exits 0 if the property holds, prints FAIL and exits 1 if not.
"""
import sys
import warnings

import numpy as np
import scipy.sparse as sps

from persim import gromov_hausdorff


def path_graph(n):
    A = np.zeros((n, n), dtype=int)
    A[np.arange(n - 1), np.arange(1, n)] = 1      # upper-triangular adjacency
    return A


sizes = [1, 2, 4, 6, 9]
paths = [path_graph(n) for n in sizes]
# the same five graphs in different representations
collection = [
    paths[0].tolist(),                 # nested lists
    paths[1],                          # dense, upper triangular
    sps.csr_matrix(paths[2]),          # sparse, upper triangular
    paths[3] + paths[3].T,             # dense, symmetric
    sps.csc_matrix(paths[4] + paths[4].T),
]
K = len(collection)
diam = np.array(sizes) - 1
known_lower = 0.5 * np.abs(diam[:, None] - diam[None, :])   # mGH >= this

problems = []
for seed in (0, 1, 2):
    np.random.seed(seed)
    with warnings.catch_warnings():
        warnings.simplefilter("error")            # connected graphs: no warning expected
        lbs, ubs = gromov_hausdorff(collection)

    if lbs.shape != (K, K) or ubs.shape != (K, K):
        problems.append("seed %d: wrong shape" % seed)
        continue
    if not (np.array_equal(lbs, lbs.T) and np.array_equal(ubs, ubs.T)):
        problems.append("seed %d: not symmetric" % seed)
    if np.any(np.diag(lbs) != 0) or np.any(np.diag(ubs) != 0):
        problems.append("seed %d: non-zero diagonal" % seed)
    if np.any(lbs > ubs):
        problems.append("seed %d: lower bound above upper bound" % seed)
    for i in range(K):
        for j in range(i + 1, K):
            if ubs[i, j] < known_lower[i, j]:
                problems.append(
                    "seed %d: ub[%d,%d] = %g but mGH(P%d, P%d) >= %g"
                    % (seed, i, j, ubs[i, j], sizes[i], sizes[j], known_lower[i, j]))
            # the lower bound is deterministic: the pair call must agree
            lb_pair, ub_pair = gromov_hausdorff(collection[i], collection[j])
            if lbs[i, j] != lb_pair:
                problems.append(
                    "seed %d: lb[%d,%d] = %g in the collection, %g for the pair"
                    % (seed, i, j, lbs[i, j], lb_pair))
            if lb_pair > ubs[i, j] or lbs[i, j] > ub_pair:
                problems.append(
                    "seed %d: brackets of pair (%d,%d) from the two calls do not overlap"
                    % (seed, i, j))

if problems:
    for line in problems[:12]:
        print(line)
    print("FAIL")
    sys.exit(1)
print("PASS")
sys.exit(0)
