"""C20 demo: a diagram plot shows the requested diagrams with the requested
legend entries, also when only some of the diagrams are selected (plot_only).

Run from inside the worktree:
    cd /tmp/wt_U20 && PYTHONPATH=/tmp/wt_U20 /venv/bin/python /tmp/ref_U20/demo.py
Prints PASS / exits 0 when every scatter collection carries the points and the
label of the diagram it stands for; prints FAIL / exits 1 otherwise.
"""
import sys
import matplotlib
matplotlib.use("Agg")
import matplotlib.pyplot as plt
import numpy as np

from persim import plot_diagrams

H0 = np.array([[0.0, 0.4], [0.0, 0.9], [0.0, np.inf]])
H1 = np.array([[0.5, 1.5], [0.7, 1.0]])
H2 = np.array([[1.1, 1.3]])
dgms = [H0, H1, H2]

problems = []


def check(tag, expect_dgms, expect_labels, **kw):
    plt.close("all")
    fig, ax = plt.subplots()
    plot_diagrams([d.copy() for d in dgms], ax=ax, **kw)
    cols = [c for c in ax.get_children() if type(c).__name__ == "PathCollection"]
    if len(cols) != len(expect_dgms):
        problems.append("%s: %d collections, expected %d" % (tag, len(cols), len(expect_dgms)))
        return
    # data: finite points exactly (float32), births always
    for k, (c, d) in enumerate(zip(cols, expect_dgms)):
        off = np.asarray(c.get_offsets())
        fin = np.isfinite(d[:, 1])
        want = d.astype(np.float32)
        if off.shape != d.shape or not np.array_equal(off[:, 0], want[:, 0]) \
                or not np.array_equal(off[fin, 1], want[fin, 1]):
            problems.append("%s: collection %d does not hold its diagram's points" % (tag, k))
    # labels of the collections
    got = [c.get_label() for c in cols]
    if got != list(expect_labels):
        problems.append("%s: collection labels %r, expected %r" % (tag, got, list(expect_labels)))
    # legend entries (the infinity line may add one more entry)
    leg = ax.get_legend()
    if kw.get("legend", True):
        texts = [t.get_text() for t in leg.get_texts()] if leg is not None else []
        texts = [t for t in texts if t != r"$\infty$"]
        if texts != list(expect_labels):
            problems.append("%s: legend entries %r, expected %r" % (tag, texts, list(expect_labels)))


default = ["$H_{0}$", "$H_{1}$", "$H_{2}$"]
names = ["components", "loops", "voids"]

# everything plotted
check("all/default labels", dgms, default)
check("all/own labels", dgms, names, labels=names)
# a selection of the diagrams
check("plot_only=[1]/default labels", [H1], ["$H_{1}$"], plot_only=[1])
check("plot_only=[0, 2]/default labels", [H0, H2], ["$H_{0}$", "$H_{2}$"], plot_only=[0, 2])
check("plot_only=[2, 1]/own labels", [H2, H1], ["voids", "loops"], plot_only=[2, 1], labels=names)
check("plot_only=[1, 2]/own labels/no legend", [H1, H2], ["loops", "voids"],
      plot_only=[1, 2], labels=names, legend=False)

if problems:
    for p in problems:
        print(" -", p)
    print("FAIL")
    sys.exit(1)
print("PASS")
sys.exit(0)
