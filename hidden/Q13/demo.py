"""C13 demo: the Gaussian kernel must be the bivariate normal CDF for every correlation in (-1, 1).

Run from inside the worktree so that the worktree's persim is imported:
    cd /tmp/wt_Q13 && PYTHONPATH=/tmp/wt_Q13 /venv/bin/python /tmp/ref_Q13/demo.py
Prints PASS and exits 0 if the property holds on the probe set, prints FAIL and exits 1 otherwise.
"""
import sys
import warnings

import numpy as np
from scipy.stats import multivariate_normal

import persim
from persim import images_kernels as K

warnings.simplefilter("ignore")
np.seterr(all="ignore")

mu = np.array([0.4, 1.1])
var = np.array([2.0, 0.5])
sd = np.sqrt(var)
g = np.linspace(-3.0, 3.0, 9)
B, P = np.meshgrid(mu[0] + sd[0] * g, mu[1] + sd[1] * g, indexing="ij")
b, p = B.ravel(), P.ravel()

failures = []
# both sides of the branch thresholds 0.3 / 0.75 / 0.925, both signs
for r in (-0.99, -0.95, -0.93, -0.92, -0.75, -0.5, -0.2, 0.2, 0.5, 0.75, 0.92, 0.93, 0.95, 0.99):
    cov = r * sd[0] * sd[1]
    sigma = np.array([[var[0], cov], [cov, var[1]]])
    got = K.gaussian(b, p, mu=mu, sigma=sigma)
    ref = multivariate_normal(mean=mu, cov=sigma, allow_singular=False).cdf(np.column_stack([b, p]))
    err = float(np.max(np.abs(got - ref)))
    img = got.reshape(B.shape)
    mass = img[1:, 1:] - img[:-1, 1:] - img[1:, :-1] + img[:-1, :-1]
    problems = []
    if not err <= 1e-7:
        problems.append("max |kernel - reference| = %.3g" % err)
    if not (np.all(got >= -1e-12) and np.all(got <= 1 + 1e-12)):
        problems.append("values outside [0,1]: min %.3g max %.3g" % (got.min(), got.max()))
    if not (np.all(np.diff(img, axis=0) >= -1e-12) and np.all(np.diff(img, axis=1) >= -1e-12)):
        problems.append("not monotone")
    if not np.all(mass >= -1e-12):
        problems.append("negative rectangle mass %.3g" % mass.min())
    print("r = %+5.2f  max err %.2e  %s" % (r, err, "; ".join(problems) if problems else "ok"))
    if problems:
        failures.append(r)

print("persim imported from", persim.__file__)
if failures:
    print("FAIL: Gaussian kernel is not the bivariate normal CDF for r in", failures)
    sys.exit(1)
print("PASS")
sys.exit(0)
