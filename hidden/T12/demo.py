"""C12 demo: after fit() the imager covers every fitted point and exceeds the fitted extent by at most
one pixel per axis, resolution * pixel_size equals width/height, the mesh has resolution+1 boundaries and
images have the reported resolution.  Prints PASS / exits 0 when that holds, FAIL / exits 1 otherwise."""
import sys
import warnings

import matplotlib
matplotlib.use("Agg")
warnings.filterwarnings("ignore")
import numpy as np
from persim import PersistenceImager

TOL = 1e-9


def check(imgr, births, pers, label, problems):
    pix = imgr.pixel_size
    (b0, b1), (p0, p1) = imgr.birth_range, imgr.pers_range
    rb, rp = imgr.resolution
    # self-consistency
    if abs(rb * pix - imgr.width) > TOL or abs(rp * pix - imgr.height) > TOL:
        problems.append("%s: resolution*pixel_size != width/height" % label)
    if abs((b1 - b0) - imgr.width) > TOL or abs((p1 - p0) - imgr.height) > TOL:
        problems.append("%s: covered range != width/height" % label)
    if len(imgr._bpnts) != rb + 1 or len(imgr._ppnts) != rp + 1:
        problems.append("%s: mesh does not have resolution+1 boundaries" % label)
    if not (np.allclose(np.diff(imgr._bpnts), pix, atol=TOL) and np.allclose(np.diff(imgr._ppnts), pix, atol=TOL)):
        problems.append("%s: pixels are not squares of the configured size" % label)
    # covers what was asked for ...
    if b0 > births.min() + TOL or b1 < births.max() - TOL or p0 > pers.min() + TOL or p1 < pers.max() - TOL:
        problems.append("%s: a fitted point is outside the covered ranges" % label)
    # ... and exceeds it by no more than one pixel
    exc_b = (b1 - b0) - (births.max() - births.min())
    exc_p = (p1 - p0) - (pers.max() - pers.min())
    if exc_b > pix * (1 + 1e-6) or exc_p > pix * (1 + 1e-6):
        problems.append(
            "%s: covered range exceeds the fitted extent by %.3f / %.3f pixels (birth / persistence), resolution %s"
            % (label, exc_b / pix, exc_p / pix, imgr.resolution)
        )


def run_case(pix, dgm, label, problems, history=()):
    imgr = PersistenceImager(pixel_size=pix)
    for name, val in history:
        setattr(imgr, name, val)
    imgr.fit(dgm, skew=True)
    births, pers = dgm[:, 0], dgm[:, 1] - dgm[:, 0]
    check(imgr, births, pers, label, problems)
    img = imgr.transform(dgm, skew=True)
    if img.shape != tuple(imgr.resolution):
        problems.append("%s: image shape %s != resolution %s" % (label, img.shape, imgr.resolution))


problems = []
# hand-picked: births span 0.35 = 3.5 pixels of 0.1 -> 4 pixels, 0.05 to spare; persistence spans 1.42
run_case(0.1, np.array([[0.0, 0.3], [0.35, 2.07]]), "pix=0.1 births 0..0.35", problems)
run_case(0.1, np.array([[-1.7, -1.4], [-1.45, 0.2]]), "pix=0.1 births -1.7..-1.45", problems)
run_case(1 / 3, np.array([[0.2, 0.5], [1.0, 2.9]]), "pix=1/3 births 0.2..1.0", problems)
run_case(0.3, np.array([[0.1, 0.4], [0.8, 2.0]]), "pix=0.3 after setters", problems,
         history=(("birth_range", (0.0, 0.7)), ("pixel_size", 0.3)))
# exact binary quotients (what the test-suite uses)
run_case(1, np.array([[1, 2], [4, 8], [-1, 5.25]]), "pix=1 suite diagram", problems)
run_case(0.75, np.array([[0.0, 1.0], [1.25, 3.0]]), "pix=0.75", problems)

# seeded scan over extents that are not whole multiples of the pixel size
rng = np.random.default_rng(2024)
for k in range(600):
    pix = [0.1, 0.2, 0.3, 1 / 3, 0.7, 0.05][k % 6]
    lo = rng.integers(-20, 20) / 10
    wb = (rng.integers(1, 30) + 0.5) * pix * 0.5 + 0.013      # never a whole number of pixels
    wp = (rng.integers(1, 30) + 0.25) * pix * 0.5 + 0.007
    dgm = np.array([[lo, lo + 0.3], [lo + wb, lo + wb + 0.3 + wp]])
    run_case(pix, dgm, "scan %d pix=%g" % (k, pix), problems)

if problems:
    for p in problems[:8]:
        print(p)
    print("... %d violations in total" % len(problems))
    print("FAIL")
    sys.exit(1)
print("PASS")
sys.exit(0)
