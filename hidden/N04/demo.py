"""C04 demo: every persistence-image pixel equals sum_i weight_i * (kernel mass in the pixel's square).

The reference masses are computed WITHOUT persim's CDF code:
  * Gaussian kernels: tensor Gauss-Legendre integration of the bivariate normal density over each pixel;
  * uniform kernel:   exact overlap area of the box with the pixel.
Run from inside the tree under test:
    cd <tree> && PYTHONPATH=<tree> /venv/bin/python /tmp/ref_N04/demo.py
Prints PASS / exits 0 when all pixels agree, prints FAIL / exits 1 otherwise.
"""
import sys
import warnings

warnings.simplefilter("ignore")

import matplotlib

matplotlib.use("Agg")
import numpy as np

from persim import PersistenceImager

TOL = 1e-7
NODES, WTS = np.polynomial.legendre.leggauss(48)


def gauss_mass(lo_b, hi_b, lo_p, hi_p, mu, cov):
    """Integral of the N(mu, cov) density over [lo_b, hi_b] x [lo_p, hi_p] (sub-divided Gauss-Legendre)."""
    cov = np.asarray(cov, dtype=float)
    inv = np.linalg.inv(cov)
    norm = 1.0 / (2.0 * np.pi * np.sqrt(np.linalg.det(cov)))
    total = 0.0
    sub = 4
    eb = np.linspace(lo_b, hi_b, sub + 1)
    ep = np.linspace(lo_p, hi_p, sub + 1)
    for i in range(sub):
        for j in range(sub):
            hb, hp = (eb[i + 1] - eb[i]) / 2, (ep[j + 1] - ep[j]) / 2
            xb = eb[i] + hb * (NODES + 1)
            xp = ep[j] + hp * (NODES + 1)
            db = (xb - mu[0])[:, None]
            dp = (xp - mu[1])[None, :]
            q = inv[0, 0] * db * db + 2 * inv[0, 1] * db * dp + inv[1, 1] * dp * dp
            total += hb * hp * np.sum(WTS[:, None] * WTS[None, :] * norm * np.exp(-0.5 * q))
    return total


def box_mass(lo_b, hi_b, lo_p, hi_p, mu, width, height):
    ob = max(0.0, min(hi_b, mu[0] + width / 2) - max(lo_b, mu[0] - width / 2))
    op = max(0.0, min(hi_p, mu[1] + height / 2) - max(lo_p, mu[1] - height / 2))
    return ob * op / (width * height)


def weight_of(name, params, pers):
    if name == "persistence":
        return pers ** params["n"]
    lo, hi, st, en = params["low"], params["high"], params["start"], params["end"]
    if pers < st:
        return lo
    if pers > en:
        return hi
    return (pers - st) * (hi - lo) / (en - st) + lo


# birth-death diagram: points inside, on the border of and outside the imaged region, with a tie
DGM = np.array([[0.10, 0.55], [0.40, 1.30], [0.40, 1.30], [0.90, 1.05], [1.00, 1.50], [-0.30, 0.20], [0.25, 1.90]])

CONFIGS = [
    ("isotropic scalar variance", "gaussian", {"sigma": 0.04}, "persistence", {"n": 1.0}),
    ("axis-aligned", "gaussian", {"sigma": [[0.09, 0.0], [0.0, 0.02]]}, "persistence", {"n": 2.0}),
    ("correlated r=+0.5", "gaussian", {"sigma": [[0.09, 0.03], [0.03, 0.04]]}, "linear_ramp",
     {"low": 0.0, "high": 2.0, "start": 0.1, "end": 0.8}),
    ("correlated r=-0.6", "gaussian", {"sigma": [[0.09, -0.036], [-0.036, 0.04]]}, "persistence", {"n": 1.0}),
    ("correlated r=+0.95", "gaussian", {"sigma": [[0.09, 0.057], [0.057, 0.04]]}, "persistence", {"n": 1.0}),
    ("correlated r=-0.95", "gaussian", {"sigma": [[0.09, -0.057], [-0.057, 0.04]]}, "persistence", {"n": 1.0}),
    ("correlated r=-0.98", "gaussian", {"sigma": [[0.06, -0.0588], [-0.0588, 0.06]]}, "linear_ramp",
     {"low": 0.0, "high": 1.0, "start": 0.0, "end": 1.0}),
    ("uniform box", "uniform", {"width": 0.3, "height": 0.45}, "persistence", {"n": 1.0}),
]


def main():
    ok = True
    for label, kernel, kparams, weight, wparams in CONFIGS:
        pim = PersistenceImager(birth_range=(0.0, 1.0), pers_range=(0.0, 1.2), pixel_size=0.2,
                                weight=weight, weight_params=wparams, kernel=kernel, kernel_params=kparams)
        img = np.asarray(pim.transform(DGM, skew=True))
        nb, npx = pim.resolution
        b0, p0, px = pim.birth_range[0], pim.pers_range[0], pim.pixel_size
        pts = np.column_stack([DGM[:, 0], DGM[:, 1] - DGM[:, 0]])
        ref = np.zeros((nb, npx))
        for b, p in pts:
            wt = weight_of(weight, wparams, p)
            for i in range(nb):
                for j in range(npx):
                    sq = (b0 + i * px, b0 + (i + 1) * px, p0 + j * px, p0 + (j + 1) * px)
                    if kernel == "uniform":
                        m = box_mass(*sq, (b, p), kparams["width"], kparams["height"])
                    else:
                        s = kparams["sigma"]
                        cov = [[s, 0.0], [0.0, s]] if np.isscalar(s) else s
                        m = gauss_mass(*sq, (b, p), cov)
                    ref[i, j] += wt * m
        err = float(np.max(np.abs(img - ref))) if img.shape == ref.shape else float("inf")
        good = err < TOL
        ok &= good
        print("%-28s shape=%s max|pixel - weighted mass| = %.3e  %s" % (label, img.shape, err, "ok" if good else "MISMATCH"))
    print("PASS" if ok else "FAIL")
    return 0 if ok else 1


if __name__ == "__main__":
    sys.exit(main())
