"""C13 demo: the Gaussian kernel of persim.images_kernels must be the bivariate normal CDF.

Run from inside the worktree:  cd /tmp/wt_M13 && PYTHONPATH=/tmp/wt_M13 /venv/bin/python /tmp/ref_M13/demo.py
Prints PASS / exits 0 when the kernel agrees with an independent reference (Plackett's one-dimensional
integral evaluated by adaptive quadrature) to 1e-7 on both sides of every branch threshold; FAIL / exit 1 otherwise.
"""
import sys
import numpy as np
from scipy.integrate import quad
from scipy.special import erfc
from persim import images_kernels as K


def phi(t):
    return erfc(-t / np.sqrt(2.0)) / 2.0


def reference(h, k, r):
    """P(X<=h, Y<=k) for a standard bivariate normal with correlation r (Plackett / Drezner-Wesolowsky)."""
    f = lambda t: np.exp(-(h * h + k * k - 2.0 * h * k * np.sin(t)) / (2.0 * np.cos(t) ** 2))
    v, _ = quad(f, 0.0, np.arcsin(r), epsabs=1e-13, epsrel=1e-12, limit=500)
    return phi(h) * phi(k) + v / (2.0 * np.pi)


def main():
    mu = np.array([0.4, 1.1])
    var_b, var_p = 0.09, 2.5                      # variances more than an order of magnitude apart
    # evaluation points: on, above and below the diagonal of the standardised plane, plus tails
    zs = np.array([[0.0, 0.0], [0.7, -0.4], [-0.4, 0.7], [1.5, 1.2], [1.2, 1.5], [-2.0, -0.5], [-0.5, -2.0],
                   [2.5, -1.0], [-1.0, 2.5], [0.3, 0.31], [-3.5, 3.0], [6.0, 6.5], [-7.0, -6.0]])
    birth = mu[0] + zs[:, 0] * np.sqrt(var_b)
    pers = mu[1] + zs[:, 1] * np.sqrt(var_p)
    worst, bad = 0.0, []
    for r in (0.0, 0.2, -0.29, 0.31, -0.5, 0.74, 0.76, -0.9, 0.92, 0.93, -0.93, 0.97, -0.99, 0.999):
        cov = r * np.sqrt(var_b * var_p)
        sigma = np.array([[var_b, cov], [cov, var_p]])
        got = K.gaussian(birth, pers, mu=mu, sigma=sigma)
        want = np.array([reference(h, k, r) for h, k in zs])
        err = np.abs(got - want)
        worst = max(worst, float(np.nanmax(err)))
        ok = np.all(np.isfinite(got)) and np.all(got >= -1e-12) and np.all(got <= 1 + 1e-12) and np.all(err <= 1e-7)
        if not ok:
            i = int(np.nanargmax(err))
            bad.append("r=%+.3f: kernel(%s)=%.9f, reference=%.9f (|err|=%.2e)" % (r, zs[i].tolist(), got[i], want[i], err[i]))
    # rectangle masses must be non-negative for a strongly correlated kernel (pixel integration in PersistenceImager)
    cov = 0.95 * np.sqrt(var_b * var_p)
    sigma = np.array([[var_b, cov], [cov, var_p]])
    gb, gp = np.meshgrid(mu[0] + np.linspace(-3, 3, 13) * np.sqrt(var_b), mu[1] + np.linspace(-3, 3, 13) * np.sqrt(var_p), indexing="ij")
    F = K.gaussian(gb.ravel(), gp.ravel(), mu=mu, sigma=sigma).reshape(gb.shape)
    mass = F[1:, 1:] - F[:-1, 1:] - F[1:, :-1] + F[:-1, :-1]
    if mass.min() < -1e-9:
        bad.append("r=+0.950: a pixel receives negative mass %.3e" % mass.min())
    if bad:
        print("FAIL")
        for line in bad:
            print("  " + line)
        return 1
    print("PASS (max |kernel - reference| = %.2e)" % worst)
    return 0


if __name__ == "__main__":
    sys.exit(main())
