"""C04 demo: every pixel of a persistence image equals the sum over the diagram's points of
weight(point) * (kernel mass over the pixel's square), with the kernel centred at the point in
birth-persistence coordinates.

The reference values are computed independently of persim's transform code: the pixel squares come from the
public attributes (birth_range, pers_range, pixel_size, resolution), the Gaussian masses from
scipy.stats.norm / scipy.stats.multivariate_normal, the weights from their closed forms.

Run from inside the worktree:
    cd /tmp/wt_L04 && PYTHONPATH=/tmp/wt_L04 /venv/bin/python /tmp/ref_L04/demo.py
Exit 0 + PASS when the property holds on all cases, exit 1 + FAIL otherwise.
"""
import sys

import matplotlib

matplotlib.use("Agg")

import numpy as np
from scipy.stats import multivariate_normal, norm

from persim import PersistenceImager


def edges(imgr):
    nb, npx = imgr.resolution
    eb = imgr.birth_range[0] + imgr.pixel_size * np.arange(nb + 1)
    ep = imgr.pers_range[0] + imgr.pixel_size * np.arange(npx + 1)
    return eb, ep


def w_persistence(p, n=1.0):
    return p**n


def w_ramp(p, low, high, start, end):
    return np.where(p < start, low, np.where(p > end, high, (p - start) * (high - low) / (end - start) + low))


def reference_isotropic(imgr, dgm, variance, wts):
    """sum_i w_i * (Phi-difference along birth) x (Phi-difference along persistence)."""
    eb, ep = edges(imgr)
    b, p = dgm[:, 0], dgm[:, 1] - dgm[:, 0]
    s = np.sqrt(variance)
    mb = np.diff(norm.cdf(eb[None, :], loc=b[:, None], scale=s), axis=1)
    mp = np.diff(norm.cdf(ep[None, :], loc=p[:, None], scale=s), axis=1)
    return np.einsum("i,ib,ip->bp", wts, mb, mp)


def reference_correlated(imgr, dgm, cov, wts):
    eb, ep = edges(imgr)
    bb, pp = np.meshgrid(eb, ep, indexing="ij")
    corners = np.stack([bb, pp], axis=-1)
    img = np.zeros(imgr.resolution)
    for (b, d), w in zip(dgm, wts):
        F = multivariate_normal(mean=[b, d - b], cov=cov).cdf(corners)
        img += w * (F[1:, 1:] - F[:-1, 1:] - F[1:, :-1] + F[:-1, :-1])
    return img


def diagram(rng, n):
    birth = rng.uniform(0.0, 2.0, n)
    death = birth + rng.uniform(0.05, 1.5, n)
    return np.column_stack([birth, death])


def main():
    rng = np.random.default_rng(20240)
    failures = []

    def check(name, got, want, tol):
        err = float(np.max(np.abs(got - want)))
        scale = float(np.max(np.abs(want)))
        ok = err <= tol * max(scale, 1.0)
        print("%-62s max|err| = %.3e  (max|pixel| = %.3e)  %s" % (name, err, scale, "ok" if ok else "MISMATCH"))
        if not ok:
            failures.append(name)

    # --- isotropic Gaussian, persistence weight, diagrams of growing size -----------------------------------------
    for n in (3, 40, 512, 513, 700, 1800):
        dgm = diagram(rng, n)
        imgr = PersistenceImager(
            birth_range=(0.0, 2.0), pers_range=(0.0, 1.5), pixel_size=0.25, kernel_params={"sigma": 0.02}
        )
        got = imgr.transform(dgm, skew=True)
        p = dgm[:, 1] - dgm[:, 0]
        want = reference_isotropic(imgr, dgm, 0.02, w_persistence(p))
        check("isotropic gaussian, persistence weight, %4d points" % n, got, want, 1e-10)

    # --- isotropic Gaussian given as a matrix, linear ramp weight, a large diagram --------------------------------
    dgm = diagram(rng, 900)
    ramp = {"low": 0.0, "high": 3.0, "start": 0.3, "end": 1.2}
    imgr = PersistenceImager(
        birth_range=(-0.1, 2.2),
        pers_range=(0.0, 1.6),
        pixel_size=0.2,
        weight="linear_ramp",
        weight_params=ramp,
        kernel_params={"sigma": [[0.05, 0.0], [0.0, 0.05]]},
    )
    got = imgr.transform(dgm, skew=True)
    want = reference_isotropic(imgr, dgm, 0.05, w_ramp(dgm[:, 1] - dgm[:, 0], **ramp))
    check("isotropic gaussian (matrix), linear ramp,  900 points", got, want, 1e-10)

    # --- a collection: a small and a large diagram through one imager ---------------------------------------------
    dgms = [diagram(rng, 5), diagram(rng, 1100)]
    imgr = PersistenceImager(birth_range=(0.0, 2.0), pers_range=(0.0, 1.5), pixel_size=0.5, kernel_params={"sigma": 0.1})
    for k, (dgm, got) in enumerate(zip(dgms, imgr.transform(dgms, skew=True))):
        want = reference_isotropic(imgr, dgm, 0.1, w_persistence(dgm[:, 1] - dgm[:, 0]))
        check("collection entry %d (%4d points), isotropic gaussian" % (k, len(dgm)), got, want, 1e-10)

    # --- correlated Gaussian (general path), moderate size --------------------------------------------------------
    dgm = diagram(rng, 30)
    cov = np.array([[0.06, 0.03], [0.03, 0.09]])
    imgr = PersistenceImager(birth_range=(0.0, 2.0), pers_range=(0.0, 1.5), pixel_size=0.5, kernel_params={"sigma": cov})
    got = imgr.transform(dgm, skew=True)
    want = reference_correlated(imgr, dgm, cov, w_persistence(dgm[:, 1] - dgm[:, 0]))
    check("correlated gaussian (general path),   30 points", got, want, 1e-5)

    if failures:
        print("FAIL: %d case(s) where a pixel is not the weighted kernel mass over its square:" % len(failures))
        for name in failures:
            print("   - " + name)
        return 1
    print("PASS")
    return 0


if __name__ == "__main__":
    sys.exit(main())
