"""C11 demo: persistence images do not depend on the call style.

Run from inside the worktree so that its copy of persim is imported:
    cd /tmp/wt_T11 && PYTHONPATH=/tmp/wt_T11 /venv/bin/python /tmp/ref_T11/demo.py

Checks, for diagrams whose births are not all zero:
  1. fit_transform(D) gives the image of fit(D) followed by transform(D)              (one diagram and a collection)
  2. birth-death input with skew=True gives the image of the pre-converted birth-persistence input with skew=False
  3. the pixel total never exceeds the total weight and no pixel is negative           (persistence weight, n = 1)
Prints PASS / exits 0 when all hold, prints FAIL / exits 1 otherwise.
"""
import sys
import warnings

import matplotlib

matplotlib.use("Agg")
import numpy as np

warnings.simplefilter("ignore")

import persim
from persim import PersistenceImager

print("persim imported from", persim.__file__)

problems = []


def check(label, got, want):
    got, want = np.asarray(got), np.asarray(want)
    if got.shape != want.shape or not np.allclose(got, want, rtol=1e-12, atol=1e-14):
        err = np.abs(got - want).max() if got.shape == want.shape else "shape %s vs %s" % (got.shape, want.shape)
        problems.append("%s: differs (max abs error %s)" % (label, err))


def to_bp(d):
    d = np.array(d, dtype=float)
    d[:, 1] -= d[:, 0]
    return d


d1 = np.array([[0.5, 0.8], [0.7, 2.2], [2.5, 4.0]])
d2 = np.array([[0.1, 0.2], [3.1, 3.3], [1.6, 2.9]])
d3 = np.array([[0.2, 1.5], [0.4, 0.6], [0.2, 2.6]])
h0 = np.array([[0.0, 0.4], [0.0, 1.1], [0.0, 2.3]])  # every class born at 0

for cfg in ({"pixel_size": 0.5}, {"pixel_size": 0.25, "kernel_params": {"sigma": 0.3}},
            {"pixel_size": 0.5, "kernel": "uniform", "kernel_params": {"width": 1.0, "height": 0.5}}):
    tag = str(cfg)

    # 1a. one diagram: fit_transform == fit ; transform
    a = PersistenceImager(**cfg)
    img_ft = a.fit_transform(d1, skew=True)
    b = PersistenceImager(**cfg)
    b.fit(d1, skew=True)
    img_f_t = b.transform(d1, skew=True)
    check("fit_transform(D) vs fit(D);transform(D) " + tag, img_ft, img_f_t)
    if (a.birth_range, a.pers_range, a.resolution) != (b.birth_range, b.pers_range, b.resolution):
        problems.append("fitted ranges differ " + tag)

    # 1b. a collection
    a = PersistenceImager(**cfg)
    imgs_ft = a.fit_transform([d1, d2, d3], skew=True)
    b = PersistenceImager(**cfg)
    b.fit([d1, d2, d3], skew=True)
    imgs_f_t = b.transform([d1, d2, d3], skew=True)
    if not isinstance(imgs_ft, list) or len(imgs_ft) != 3:
        problems.append("fit_transform of a collection must give a list of 3 images " + tag)
    else:
        for k in range(3):
            check("collection item %d, fit_transform vs fit;transform %s" % (k, tag), imgs_ft[k], imgs_f_t[k])

    # 2. birth-death + skew  ==  pre-converted birth-persistence, no skew
    a = PersistenceImager(**cfg)
    img_bd = a.fit_transform(d2, skew=True)
    b = PersistenceImager(**cfg)
    img_bp = b.fit_transform(to_bp(d2), skew=False)
    check("fit_transform(BD, skew=True) vs fit_transform(BP, skew=False) " + tag, img_bd, img_bp)

    # births at zero: the same relations (these hold trivially, skewing by a zero birth changes nothing)
    a = PersistenceImager(**cfg)
    b = PersistenceImager(**cfg)
    b.fit(h0)
    check("H0 diagram " + tag, a.fit_transform(h0), b.transform(h0))

# 3. mass bound, default persistence weight: total of the image <= sum of persistences, no negative pixel
a = PersistenceImager(pixel_size=0.25)
img = a.fit_transform(d1, skew=True)
total_weight = float((d1[:, 1] - d1[:, 0]).sum())
if img.min() < 0 or img.sum() > total_weight * (1 + 1e-12):
    problems.append("mass bound: pixel total %.6f exceeds the total weight %.6f (or a pixel is negative: min %.3g)"
                    % (img.sum(), total_weight, img.min()))

if problems:
    for p in problems:
        print("  -", p)
    print("FAIL")
    sys.exit(1)
print("PASS")
sys.exit(0)
