"""C08 demo: the landscape transformer must return the sampled values of the
approximate landscape for its CURRENT configuration, and those values must
stay within half a grid step of the true landscape.

Run from inside the tree under test:
    cd <tree> && PYTHONPATH=<tree> /venv/bin/python /tmp/ref_V08/demo.py
Prints PASS / exits 0 when the property holds, FAIL / exits 1 otherwise.
"""
import sys
import numpy as np

from persim.landscapes import PersistenceLandscaper, PersLandscapeApprox


def true_landscape(dgm, grid):
    """Exact landscape values at the grid nodes, depth x node (brute force)."""
    tents = np.maximum(
        0.0, np.minimum(grid[None, :] - dgm[:, [0]], dgm[:, [1]] - grid[None, :])
    )
    return -np.sort(-tents, axis=0)


def check(label, tr, dgms, out, failures):
    """`out` was produced by `tr.transform(dgms)` with tr's current settings."""
    dgm = np.asarray(dgms[tr.hom_deg], dtype=float)
    ref = PersLandscapeApprox(
        dgms=dgms, start=tr.start, stop=tr.stop, num_steps=tr.num_steps, hom_deg=tr.hom_deg
    ).values
    if tr.flatten:
        ref = ref.flatten()
    if out.shape != ref.shape or not np.array_equal(out, ref):
        failures.append(f"{label}: transformer output {out.shape} is not the approximate "
                        f"landscape for its settings {ref.shape} ({tr!r})")
        return
    # half-step bound against the true landscape on the transformer's grid
    grid, step = np.linspace(tr.start, tr.stop, tr.num_steps, retstep=True)
    vals = np.asarray(out, dtype=float).reshape(-1, tr.num_steps)
    truth = true_landscape(dgm, grid)
    depth = max(len(vals), len(truth))
    pad = lambda a: np.vstack([a, np.zeros((depth - len(a), a.shape[1]))])
    err = np.abs(pad(vals) - pad(truth)).max()
    if err > step / 2 + 1e-12:
        failures.append(f"{label}: error {err} exceeds half a step {step / 2}")


def main():
    rng = np.random.default_rng(8)
    failures = []
    for trial in range(20):
        n = int(rng.integers(2, 7))
        b0 = rng.random(n) * 6
        d0 = np.stack([b0, b0 + 3.0 + rng.random(n) * 3], 1)
        b1 = rng.random(n) * 6
        d1 = np.stack([b1, b1 + 3.0 + rng.random(n) * 3], 1)
        dgms = [d0, d1]

        # 1. fresh transformer, plain use
        tr = PersistenceLandscaper(hom_deg=0, num_steps=40)
        out = tr.fit_transform(dgms)
        check(f"trial {trial} fit_transform", tr, dgms, out, failures)

        # 2. re-configure the fitted transformer the scikit-learn way and transform again
        tr.set_params(num_steps=int(rng.integers(20, 36)))
        out = tr.transform(dgms)
        check(f"trial {trial} after set_params(num_steps)", tr, dgms, out, failures)

        tr.set_params(hom_deg=1, start=-1.0, stop=12.0)
        out = tr.transform(dgms)
        check(f"trial {trial} after set_params(hom_deg, start, stop)", tr, dgms, out, failures)

        # 3. transform before fit (grid taken from the data), then fit on wider data:
        #    afterwards the fitted grid must be the one that is used
        tr2 = PersistenceLandscaper(hom_deg=0, num_steps=25, flatten=True)
        tr2.transform(dgms)
        wide = [np.vstack([d0, [[-2.0, 13.0]]]), d1]
        tr2.fit(wide)
        out = tr2.transform(dgms)
        check(f"trial {trial} transform/fit/transform", tr2, dgms, out, failures)

    if failures:
        print("FAIL")
        for f in failures[:6]:
            print("  ", f)
        print(f"   ({len(failures)} violations)")
        return 1
    print("PASS")
    return 0


if __name__ == "__main__":
    sys.exit(main())
