"""Demo for property C01: persim.bottleneck returns the true min-max matching cost.

Run from inside the worktree so that the local copy of persim is imported:
    cd /tmp/wt_L01 && PYTHONPATH=/tmp/wt_L01 /venv/bin/python /tmp/ref_L01/demo.py

The reference value is obtained by exhaustive enumeration of all partial
pairings (every point of the first diagram goes to a distinct point of the
second diagram or to the diagonal, the remaining points of the second diagram
go to the diagonal).  Coordinates are integers, so every cost is an exact
multiple of 0.5 and the comparison is exact.
"""
import itertools
import sys
import warnings

import numpy as np

import persim
from persim import bottleneck


def brute_force(A, B):
    A = [p for p in A if np.isfinite(p[1])]
    B = [p for p in B if np.isfinite(p[1])]
    m, n = len(A), len(B)

    def diag(p):
        return 0.5 * (p[1] - p[0])

    def linf(p, q):
        return max(abs(p[0] - q[0]), abs(p[1] - q[1]))

    best = np.inf
    # slots 0..n-1 are the points of B, slots n..n+m-1 mean "diagonal"
    for assign in itertools.permutations(range(n + m), m):
        worst = 0.0
        used = set()
        for i, slot in enumerate(assign):
            if slot < n:
                used.add(slot)
                worst = max(worst, linf(A[i], B[slot]))
            else:
                worst = max(worst, diag(A[i]))
        for j in range(n):
            if j not in used:
                worst = max(worst, diag(B[j]))
        best = min(best, worst)
    return best


FIXED = [
    ([[1, 5], [2, 3]], [[6, 11], [5, 8]]),  # 2.5
    ([[4, 7]], [[4, 5], [3, 8], [6, 13]]),  # 3.5
    ([[4, 7], [2, 9], [0, 5]], [[2, 4]]),  # 3.5
    ([[2, 3], [5, 12], [3, 10]], [[2, 7], [7, 11], [0, 4]]),  # 3.0
    ([[4, 5], [7, 12], [7, 9]], [[6, 13], [2, 8], [2, 8]]),  # 3.0, repeated point
    ([[-4, 1], [-2, -2], [0, 7]], [[-3, 3], [1, 9]]),  # negative, diagonal point
]


def cases():
    for A, B in FIXED:
        yield np.array(A), np.array(B)
    rng = np.random.default_rng(20240101)
    for _ in range(150):
        m, n = rng.integers(0, 4), rng.integers(0, 4)
        b = rng.integers(-6, 7, m)
        A = np.stack([b, b + rng.integers(0, 9, m)], 1).astype(float)
        b = rng.integers(-6, 7, n)
        B = np.stack([b, b + rng.integers(0, 9, n)], 1).astype(float)
        if m and rng.random() < 0.2:
            A = np.vstack([A, [[0.0, np.inf]]])
        yield A, B


def main():
    print("persim imported from", persim.__file__)
    bad = 0
    total = 0
    for A, B in cases():
        total += 1
        with warnings.catch_warnings():
            warnings.simplefilter("ignore")
            got = bottleneck(A, B)
            got_m = bottleneck(A, B, matching=True)[0]
        want = brute_force(A.tolist(), B.tolist())
        if got != want or got_m != want:
            bad += 1
            if bad <= 5:
                print(
                    "mismatch: dgm1=%s dgm2=%s  bottleneck=%r (matching=True: %r)  exhaustive=%r"
                    % (A.tolist(), B.tolist(), float(got), float(got_m), want)
                )
    print("%d / %d diagram pairs disagree with the exhaustive min-max value" % (bad, total))
    if bad:
        print("FAIL")
        return 1
    print("PASS")
    return 0


if __name__ == "__main__":
    sys.exit(main())
