"""C03 demo: the exact landscape must equal the k-th-largest-tent definition.

Run from inside the worktree:
    cd /tmp/wt_M03 && PYTHONPATH=/tmp/wt_M03 /venv/bin/python /tmp/ref_M03/demo.py
Prints PASS / exits 0 when every diagram below matches the definition at every
sampled t and every depth k (including one depth past the last one returned),
prints FAIL / exits 1 otherwise.
"""
import sys

import numpy as np

from persim import PersLandscapeExact


def definition(bars, ts, k):
    """k-th largest value (k >= 1) of max(0, min(t - b, d - t)) over the bars."""
    b, d = np.asarray(bars, dtype=float).T
    tents = np.maximum(0.0, np.minimum(np.subtract.outer(ts, b), -np.subtract.outer(ts, d)))
    if k > tents.shape[1]:
        return np.zeros_like(ts)
    return -np.sort(-tents, axis=1)[:, k - 1]


def evaluate(points, ts):
    """Piecewise-linear function through the critical points, zero outside them."""
    xs = np.array([float(p[0]) for p in points])
    ys = np.array([float(p[1]) for p in points])
    if np.any(np.diff(xs) < 0):
        raise AssertionError("critical points not ordered by abscissa")
    return np.interp(ts, xs, ys, left=0.0, right=0.0)


def check(bars):
    bars = np.asarray(bars)
    pl = PersLandscapeExact(dgms=[bars], hom_deg=0)
    pairs = pl.critical_pairs
    lo, hi = float(bars.min()) - 1.0, float(bars.max()) + 1.0
    # grid contains every endpoint and midpoint exactly (quarter steps)
    ts = np.arange(lo, hi + 0.125, 0.25)
    problems = []
    for k in range(1, len(bars) + 2):
        want = definition(bars, ts, k)
        try:
            got = evaluate(pairs[k - 1], ts) if k <= len(pairs) else np.zeros_like(ts)
        except AssertionError as exc:
            problems.append(f"depth {k}: {exc}")
            continue
        worst = np.abs(got - want).max()
        if worst > 1e-12:
            t = ts[np.argmax(np.abs(got - want))]
            problems.append(
                f"depth {k}: landscape({t}) = {got[np.argmax(np.abs(got - want))]}, "
                f"definition = {want[np.argmax(np.abs(got - want))]}"
                + ("" if k <= len(pairs) else f"  (only {len(pairs)} depths returned)")
            )
    return problems


DIAGRAMS = [
    # textbook example (Bubenik & Dlotko)
    [[1.0, 5.0], [2.0, 8.0], [3.0, 4.0], [5.0, 9.0], [6.0, 7.0]],
    # nested / disjoint / touching
    [[0, 10], [1, 9], [2, 8]],
    [[0, 1], [2, 3], [3, 5]],
    # equal births
    [[0, 6], [0, 4], [0, 2], [1, 7]],
    # equal deaths
    [[0, 4], [1, 4]],
    [[0, 6], [2, 6], [4, 6], [1, 3]],
    [[-3, 1], [-2, 1], [-1, 4], [0, 4]],
    [[0.5, 3.0], [1.0, 3.0], [2.0, 5.5], [2.5, 5.5], [0.0, 1.5]],
]


def main():
    failed = False
    for bars in DIAGRAMS:
        problems = check(bars)
        status = "ok " if not problems else "BAD"
        print(f"{status} {bars}")
        for line in problems:
            print("      " + line)
        failed |= bool(problems)
    print("FAIL" if failed else "PASS")
    return 1 if failed else 0


if __name__ == "__main__":
    sys.exit(main())
