"""C18 demo: what an imager produces depends only on its own fit data and on the
parameters fixed on *that* imager.

Run from inside the worktree:
    cd /tmp/wt_V18 && PYTHONPATH=/tmp/wt_V18 /venv/bin/python /tmp/ref_V18/demo.py
"""
import sys

import matplotlib

matplotlib.use("Agg")
import numpy as np

from persim import PersistenceImager

dgms = [
    np.array([[0.5, 0.8], [0.7, 2.2], [2.5, 4.0]]),
    np.array([[0.1, 0.2], [3.1, 3.3], [1.6, 2.9]]),
    np.array([[0.2, 1.5], [0.4, 0.6], [0.2, 2.6]]),
]

problems = []


def check(label, got, want):
    same = len(got) == len(want) and all(
        np.array_equal(g, w) for g, w in zip(got, want)
    )
    if not same:
        worst = max(float(np.max(np.abs(g - w))) for g, w in zip(got, want))
        problems.append("%s (max abs difference %.3g)" % (label, worst))


# an imager with the default weight and kernel parameters, fitted and used once
imgr = PersistenceImager(pixel_size=0.5)
imgr.fit(dgms)
first = imgr.transform(dgms)
fitted = (imgr.birth_range, imgr.pers_range, imgr.resolution)
params = repr(imgr)

# somewhere else a second imager is tuned (its own parameters, edited in place)
other = PersistenceImager(pixel_size=0.5)
other.weight_params["n"] = 3.0
other.kernel_params["sigma"] = [[0.05, 0.0], [0.0, 0.05]]
other.fit_transform(dgms)

# 1. transforming again with the first imager is repeatable, its state is untouched
again = imgr.transform(dgms)
check("transform() is not repeatable on the untouched imager", again, first)
if (imgr.birth_range, imgr.pers_range, imgr.resolution) != fitted or repr(imgr) != params:
    problems.append(
        "state of the untouched imager changed:\n    %s\n -> %s" % (params, repr(imgr))
    )

# 2. fit + transform == fit_transform for the same explicit parameters
fresh = PersistenceImager(pixel_size=0.5)
check("fit_transform() of a fresh default imager differs from fit()+transform()",
      fresh.fit_transform(dgms), first)

# 3. a refit of the first imager on the same data learns the same thing
imgr.fit(dgms)
check("refit + transform differs from the first fit + transform", imgr.transform(dgms), first)

if problems:
    print("FAIL")
    for p in problems:
        print(" -", p)
    sys.exit(1)
print("PASS")
sys.exit(0)
