"""C11 demo: persistence images are additive -- the image of a union of diagrams is the sum of their images.

Run from inside the worktree:  cd /tmp/wt_L11 && PYTHONPATH=/tmp/wt_L11 /venv/bin/python /tmp/ref_L11/demo.py
Prints PASS / exits 0 when additivity holds, prints FAIL / exits 1 otherwise.
"""
import sys
import warnings

warnings.filterwarnings("ignore")

import matplotlib

matplotlib.use("Agg")
import numpy as np

from persim import PersistenceImager

TOL = dict(rtol=1e-10, atol=1e-13)
failures = []


def check(name, got, want):
    ok = np.allclose(got, want, **TOL)
    print("  %-58s %s   (max |diff| = %.3e)" % (name, "ok" if ok else "VIOLATED", np.max(np.abs(got - want))))
    if not ok:
        failures.append(name)


A = np.array([[0.1, 0.6], [0.3, 0.9], [0.5, 0.7]])
B = np.array([[0.3, 0.9], [0.2, 0.4]])  # shares the pair (0.3, 0.9) with A
C = np.array([[0.7, 0.95], [0.05, 0.5]])  # disjoint from A

configs = {
    "isotropic gaussian": dict(pixel_size=0.1, kernel_params={"sigma": 0.05}),
    "correlated gaussian": dict(pixel_size=0.1, kernel_params={"sigma": np.array([[0.05, 0.01], [0.01, 0.03]])}),
    "uniform kernel": dict(pixel_size=0.1, kernel="uniform", kernel_params={"width": 0.2, "height": 0.3}),
}

for label, cfg in configs.items():
    print(label)
    pimgr = PersistenceImager(birth_range=(0.0, 1.0), pers_range=(0.0, 1.0), **cfg)
    img = lambda d, **kw: pimgr.transform(d, **kw)

    # union of diagrams without a common pair
    check("img(A u C) == img(A) + img(C)", img(np.vstack([A, C])), img(A) + img(C))
    # union of diagrams with a common pair: the pair occurs twice in the union
    check("img(A u B) == img(A) + img(B)   [shared pair]", img(np.vstack([A, B])), img(A) + img(B))
    # a diagram united with itself
    check("img(A u A) == 2 img(A)", img(np.vstack([A, A])), 2 * img(A))
    # a pair of multiplicity three, integer coordinates
    T = np.array([[0, 1], [0, 1], [0, 1]])
    check("img(3 x {(0,1)}) == 3 img({(0,1)})   [int dtype]", img(T), 3 * img(T[:1]))
    # same statements for pre-converted input and inside a collection
    AB_bp = np.vstack([A, B]).copy()
    AB_bp[:, 1] -= AB_bp[:, 0]
    check("img(A u B) birth-pers == birth-death", img(AB_bp, skew=False), img(A) + img(B))
    coll = img([np.vstack([A, B]), A, B])
    check("collection: imgs[0] == imgs[1] + imgs[2]", coll[0], coll[1] + coll[2])
    # pixel total of a union equals the sum of the pixel totals
    check("sum img(A u B) == sum img(A) + sum img(B)", np.sum(img(np.vstack([A, B]))), np.sum(img(A)) + np.sum(img(B)))

if failures:
    print("FAIL: %d additivity check(s) violated" % len(failures))
    sys.exit(1)
print("PASS")
sys.exit(0)
