"""Demo for property C12 (imager geometry stays self-consistent under any configuration history).

Run from inside the worktree so that the worktree copy of persim is imported:
    cd /tmp/wt_J12 && PYTHONPATH=/tmp/wt_J12 /venv/bin/python /tmp/ref_J12/demo.py

After fit() on a collection of diagrams the covered ranges must contain every fitted point
(in birth-persistence coordinates), exceed the fitted extent by no more than one pixel, the
pixels must be squares of the configured size, and images must have the reported resolution.
"""
import sys

import matplotlib

matplotlib.use("Agg")
import numpy as np

from persim import PersistenceImager

TOL = 1e-9
problems = []


def check(label, imgr, dgms, skew=True):
    pts = np.vstack([np.asarray(d, dtype=float) for d in dgms])
    births = pts[:, 0]
    pers = pts[:, 1] - pts[:, 0] if skew else pts[:, 1]
    ps = imgr.pixel_size
    (b0, b1), (p0, p1) = imgr.birth_range, imgr.pers_range

    def bad(msg):
        problems.append("%s: %s" % (label, msg))

    # every fitted point is covered
    if births.min() < b0 - TOL or births.max() > b1 + TOL:
        bad("birth_range %r does not contain fitted births [%g, %g]" % ((b0, b1), births.min(), births.max()))
    if pers.min() < p0 - TOL or pers.max() > p1 + TOL:
        bad("pers_range %r does not contain fitted persistences [%g, %g]" % ((p0, p1), pers.min(), pers.max()))
    # no more than one pixel of excess
    if (b1 - b0) - (births.max() - births.min()) > ps + TOL:
        bad("birth_range exceeds the fitted extent by more than one pixel")
    if (p1 - p0) - (pers.max() - pers.min()) > ps + TOL:
        bad("pers_range exceeds the fitted extent by more than one pixel")
    # square pixels of the configured size, resolution * pixel_size == width/height == covered range
    res = imgr.resolution
    if abs(res[0] * ps - imgr.width) > TOL or abs(res[1] * ps - imgr.height) > TOL:
        bad("resolution * pixel_size != width/height")
    if abs((b1 - b0) - imgr.width) > TOL or abs((p1 - p0) - imgr.height) > TOL:
        bad("covered range != width/height")
    # every image has the reported resolution
    imgs = imgr.transform(dgms, skew=skew)
    for img in imgs:
        if img.shape != tuple(res):
            bad("image shape %r != resolution %r" % (img.shape, res))


# 1. two diagrams; the first one starts exactly at birth 0 and has a point of persistence 0,
#    the second one starts later and has no point on the diagonal
dgm_a = np.array([[0.0, 0.0], [0.5, 1.0], [1.0, 3.0]])
dgm_b = np.array([[0.5, 1.0], [2.0, 3.5]])
imgr = PersistenceImager(pixel_size=0.5)
imgr.fit([dgm_a, dgm_b])
check("fit([a, b])", imgr, [dgm_a, dgm_b])

# 2. same diagrams in the other order (must describe the same region)
imgr2 = PersistenceImager(pixel_size=0.5)
imgr2.fit([dgm_b, dgm_a])
check("fit([b, a])", imgr2, [dgm_b, dgm_a])
if imgr.birth_range != imgr2.birth_range or imgr.pers_range != imgr2.pers_range:
    problems.append(
        "fit depends on diagram order: %r/%r vs %r/%r"
        % (imgr.birth_range, imgr.pers_range, imgr2.birth_range, imgr2.pers_range)
    )

# 3. integer diagrams, births up to exactly 0 in the first, skew=False, after an earlier pixel-size change
dgm_c = np.array([[-3, 1], [0, 4]])
dgm_d = np.array([[-2, 2], [-1, 3]])
imgr3 = PersistenceImager(birth_range=(0, 1), pers_range=(0, 2), pixel_size=1)
imgr3.pixel_size = 0.3
imgr3.fit([dgm_c, dgm_d], skew=False)
check("pixel_size=0.3; fit([c, d], skew=False)", imgr3, [dgm_c, dgm_d], skew=False)

# 4. control: a history without a zero extreme (inexact quotients)
dgm_e = np.array([[0.1, 0.4], [0.3, 1.0]])
dgm_f = np.array([[0.2, 0.9], [0.7, 1.0]])
imgr4 = PersistenceImager(pixel_size=0.1)
imgr4.fit([dgm_e, dgm_f])
check("fit([e, f])", imgr4, [dgm_e, dgm_f])

if problems:
    for p in problems:
        print("  violation -", p)
    print("FAIL")
    sys.exit(1)
print("PASS")
sys.exit(0)
