"""C09 demo: exact landscape arithmetic must be the pointwise operation, also when
an operand was built with compute=False and has not been evaluated yet.

Run from inside the worktree:
  cd /tmp/wt_P09 && PYTHONPATH=/tmp/wt_P09 /venv/bin/python /tmp/ref_P09/demo.py
Prints PASS / exits 0 when the property holds, prints FAIL / exits 1 otherwise.
"""
import sys

import matplotlib

matplotlib.use("Agg")
import numpy as np

from persim import PersLandscapeExact

DGM_P = [np.array([[0.0, 4.0], [1.0, 3.0], [2.0, 6.0]])]
DGM_Q = [np.array([[0.5, 5.0], [2.5, 3.5]])]
XS = np.linspace(-1.0, 7.0, 161)


def evaluate(pl, depth):
    """Value of the depth-th landscape function on XS (zero for missing depths / outside)."""
    if depth >= len(pl.critical_pairs):
        return np.zeros_like(XS)
    x, y = zip(*pl.critical_pairs[depth])
    return np.interp(XS, x, y, left=0.0, right=0.0)


def same_function(result, expected_fn, n_depths):
    return all(
        np.allclose(evaluate(result, k), expected_fn(k), atol=1e-12) for k in range(n_depths)
    )


def main():
    failures = []
    # reference operands, evaluated eagerly
    P_ref = PersLandscapeExact(dgms=DGM_P)
    Q_ref = PersLandscapeExact(dgms=DGM_Q)
    depth = max(len(P_ref.critical_pairs), len(Q_ref.critical_pairs))

    scenarios = {
        "neg": (lambda P, Q: -P, lambda k: -evaluate(P_ref, k)),
        "mul": (lambda P, Q: P * 2.5, lambda k: 2.5 * evaluate(P_ref, k)),
        "rmul": (lambda P, Q: -3 * P, lambda k: -3 * evaluate(P_ref, k)),
        "div": (lambda P, Q: P / 4, lambda k: evaluate(P_ref, k) / 4),
        "sub": (lambda P, Q: Q - P, lambda k: evaluate(Q_ref, k) - evaluate(P_ref, k)),
        "add": (lambda P, Q: Q + P, lambda k: evaluate(Q_ref, k) + evaluate(P_ref, k)),
    }
    for name, (op, expected) in scenarios.items():
        # fresh, not-yet-evaluated operand P in every scenario: this is the first
        # operation of its history
        P = PersLandscapeExact(dgms=DGM_P, compute=False)
        Q = PersLandscapeExact(dgms=DGM_Q)
        try:
            R = op(P, Q)
        except Exception as e:  # noqa: BLE001
            failures.append(f"{name}: raised {type(e).__name__}: {e}")
            continue
        if not same_function(R, expected, depth):
            failures.append(f"{name}: result is not the pointwise operation")
        # operands observably unchanged (as functions)
        if not same_function(P, lambda k: evaluate(P_ref, k), depth):
            failures.append(f"{name}: operand P changed")
        if not same_function(Q, lambda k: evaluate(Q_ref, k), depth):
            failures.append(f"{name}: operand Q changed")
        # the same operation a second time must give the same function
        try:
            R2 = op(P, Q)
            if not same_function(R2, expected, depth):
                failures.append(f"{name}: repeated call differs")
        except Exception as e:  # noqa: BLE001
            failures.append(f"{name}: repeated call raised {type(e).__name__}")

    if failures:
        print("FAIL")
        for f in failures:
            print("  -", f)
        return 1
    print("PASS")
    return 0


if __name__ == "__main__":
    sys.exit(main())
