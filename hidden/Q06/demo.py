"""C06 demo: the matching returned by wasserstein/bottleneck(..., matching=True)
must certify the reported distance.

Run from inside the worktree so that its copy of persim is imported:
    cd /tmp/wt_Q06 && PYTHONPATH=/tmp/wt_Q06 /venv/bin/python /tmp/ref_Q06/demo.py
Prints PASS and exits 0 when every certificate checks out, prints FAIL and exits 1 otherwise.
"""
import sys
import warnings

import numpy as np

import persim
from persim import bottleneck, wasserstein

TOL = 1e-9


def finite_part(dgm):
    """The diagram that is actually matched: essential bars are ignored (documented,
    with a warning); an empty diagram is the one-point diagram (0, 0), index 0."""
    P = np.array(dgm, dtype=float)
    if P.size == 0:
        return np.zeros((1, 2))
    P = P[np.isfinite(P[:, 1])]
    if P.shape[0] == 0:
        return np.zeros((1, 2))
    return P


def pair_cost(kind, P, Q, i, j):
    if i >= 0 and j >= 0:
        diff = P[i, :2] - Q[j, :2]
        return np.abs(diff).max() if kind == "bottleneck" else np.sqrt((diff ** 2).sum())
    pt = P[i] if i >= 0 else Q[j]
    pers = pt[1] - pt[0]
    return 0.5 * pers if kind == "bottleneck" else pers / np.sqrt(2)


def certificate_problems(kind, dgm1, dgm2):
    f = bottleneck if kind == "bottleneck" else wasserstein
    with warnings.catch_warnings():
        warnings.simplefilter("ignore")
        d_plain = f(dgm1, dgm2)
        d, match = f(dgm1, dgm2, matching=True)
    P, Q = finite_part(dgm1), finite_part(dgm2)
    M, N = P.shape[0], Q.shape[0]
    problems = []
    if abs(d - d_plain) > TOL:
        problems.append("distance with matching %r != without %r" % (d, d_plain))
    match = np.asarray(match, dtype=float).reshape(-1, 3)
    seen1, seen2, costs = [], [], []
    for a, b, c in match:
        i, j = int(a), int(b)
        if not (-1 <= i < M and -1 <= j < N) or (i == -1 and j == -1):
            problems.append("row (%d, %d) does not name a point of dgm1 (%d pts) / dgm2 (%d pts)" % (i, j, M, N))
            continue
        if i >= 0:
            seen1.append(i)
        if j >= 0:
            seen2.append(j)
        want = pair_cost(kind, P, Q, i, j)
        if abs(want - c) > TOL:
            problems.append("row (%d, %d): cost %r, the cost rule gives %r" % (i, j, c, want))
        costs.append(c)
    if sorted(seen1) != list(range(M)):
        problems.append("dgm1 indices in the matching: %s, expected each of 0..%d once" % (sorted(seen1), M - 1))
    if sorted(seen2) != list(range(N)):
        problems.append("dgm2 indices in the matching: %s, expected each of 0..%d once" % (sorted(seen2), N - 1))
    total = (max(costs) if kind == "bottleneck" else sum(costs)) if costs else 0.0
    if abs(total - d) > TOL:
        problems.append("row costs give %r, reported distance %r" % (total, d))
    return problems


A = np.array([[0.0, 1.0], [0.5, 2.0], [1.0, 1.5]])
B = np.array([[0.1, 1.2], [0.4, 2.5]])
H0 = np.array([[0.0, np.inf], [0.0, 0.8], [0.0, 1.3]])          # an H0 diagram: one essential bar first
H0b = np.array([[0.0, 0.7], [0.0, np.inf], [0.0, 1.6], [0.0, 0.2]])

CASES = [
    # finite diagrams, including the empty one (the quantifier of the property)
    ("two finite diagrams", A, B),
    ("same, swapped", B, A),
    ("empty dgm1 ([])", np.array([]), A),
    ("empty dgm1 (shape (0,2))", np.zeros((0, 2)), B),
    ("empty dgm2 ([[]])", A, np.array([[]])),
    ("both empty", np.array([]), np.array([])),
    # diagrams with essential bars: those points are ignored, the rest is matched
    ("essential bar in dgm1", H0, B),
    ("essential bar in dgm2", A, H0b),
    ("essential bars in both", H0, H0b),
    ("only essential bars in dgm1", np.array([[0.0, np.inf]]), A),
]

print("persim imported from", persim.__file__)
failed = False
for kind in ("wasserstein", "bottleneck"):
    for name, d1, d2 in CASES:
        probs = certificate_problems(kind, d1, d2)
        print("%-12s %-32s %s" % (kind, name, "ok" if not probs else "VIOLATION"))
        for p in probs:
            print("      " + p)
        failed = failed or bool(probs)

if failed:
    print("FAIL")
    sys.exit(1)
print("PASS")
sys.exit(0)
