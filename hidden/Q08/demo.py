"""C08 demo: grid landscapes stay within half a grid step of the true landscape.

Run from inside the worktree so that the worktree's persim is imported:

    cd /tmp/wt_Q08 && PYTHONPATH=/tmp/wt_Q08 /venv/bin/python /tmp/ref_Q08/demo.py

Prints PASS and exits 0 when the property holds on all checks, prints FAIL and
exits 1 otherwise.
"""
import contextlib
import io
import sys
import warnings

import numpy as np

warnings.simplefilter("ignore")

import persim  # noqa: E402
from persim import PersLandscapeApprox, PersistenceLandscaper  # noqa: E402


def true_landscape(bars, grid, depth):
    """Brute force: k-th largest tent value at every grid point."""
    bars = np.asarray(bars, dtype=float)
    tents = np.minimum(grid[None, :] - bars[:, [0]], bars[:, [1]] - grid[None, :])
    tents = np.clip(tents, 0.0, None)
    tents = -np.sort(-tents, axis=0)  # descending in depth
    out = np.zeros((depth, len(grid)))
    k = min(depth, len(bars))
    out[:k] = tents[:k]
    return out


def worst_error(values, bars, start, stop, num_steps):
    grid, step = np.linspace(start, stop, num_steps, retstep=True)
    values = np.asarray(values)
    if values.dtype.kind in "US":  # the "empty" marker: no depth returned
        values = np.zeros((0, num_steps))
    depth = max(len(values), len(bars))
    padded = np.zeros((depth, num_steps))
    padded[: len(values)] = values  # depths beyond those returned count as 0
    return float(np.max(np.abs(padded - true_landscape(bars, grid, depth)))), step


failures = []


def check(name, ok, detail=""):
    print(f"  [{'ok' if ok else 'BROKEN'}] {name} {detail}")
    if not ok:
        failures.append(name)


print("persim imported from", persim.__file__)

# 1. float-typed diagram whose endpoints all lie on the grid: must be exact
dgm = np.array([[0.5, 2.5], [1.0, 2.0]])
pl = PersLandscapeApprox(dgms=[dgm.copy()], start=0.5, stop=2.5, num_steps=5)
expected = np.array([[0.0, 0.5, 1.0, 0.5, 0.0], [0.0, 0.0, 0.5, 0.0, 0.0]])
check(
    "on-grid float diagram is reproduced exactly",
    pl.values.shape == expected.shape and np.array_equal(pl.values, expected),
    f"\n{pl.values}",
)

# 2. the same bars, integer typed and on an integer grid (what the tests use)
dgm_i = np.array([[1, 5], [2, 4]])
pl_i = PersLandscapeApprox(dgms=[dgm_i.copy()], start=1, stop=5, num_steps=5)
check(
    "on-grid integer diagram is reproduced exactly",
    np.array_equal(pl_i.values, 2 * expected),
)

# 3. random finite float diagrams on covering grids: half-step bound
rng = np.random.default_rng(2024)
worst_ratio = 0.0
for _ in range(200):
    n = int(rng.integers(1, 8))
    b = rng.uniform(-3.0, 5.0, size=n)
    d = b + rng.uniform(0.1, 4.0, size=n)
    bars = np.stack([b, d], axis=1)
    num_steps = int(rng.choice([5, 11, 40, 101]))
    if rng.random() < 0.5:
        start, stop = None, None
        lo, hi = bars[:, 0].min(), bars[:, 1].max()
    else:
        lo = start = float(np.floor(bars.min())) - 1.0
        hi = stop = float(np.ceil(bars.max())) + 1.0
    with contextlib.redirect_stdout(io.StringIO()):  # "Bad choice of grid" chatter
        pl = PersLandscapeApprox(
            dgms=[bars.copy()], start=start, stop=stop, num_steps=num_steps
        )
    err, step = worst_error(pl.values, bars, lo, hi, num_steps)
    worst_ratio = max(worst_ratio, err / step)
check(
    "random float diagrams: |approx - true| <= step / 2",
    worst_ratio <= 0.5 + 1e-9,
    f"(worst error = {worst_ratio:.3f} steps)",
)

# 4. deferred computation gives the same thing and leaves the bars alone
bars = np.array([[0.25, 1.75], [0.5, 1.0], [1.25, 2.0]])
pl = PersLandscapeApprox(dgms=[bars.copy()], num_steps=8, compute=False)
pl.compute_landscape()
err, step = worst_error(pl.values, bars, 0.25, 2.0, 8)
check("deferred compute_landscape(): bound holds", err <= step / 2 + 1e-9,
      f"(error = {err / step:.3f} steps)")
check("the stored diagram is still the diagram", np.array_equal(pl.dgms, bars))

# 5. transformer returns the sampled values of the approximate landscape,
#    and they satisfy the bound (degree 1, start != 0)
dgms = [np.array([[0.0, 1.0]]), np.array([[1.2, 3.4], [1.5, 2.1], [2.0, 3.9]])]
t = PersistenceLandscaper(hom_deg=1, num_steps=28, flatten=True)
flat = t.fit_transform([x.copy() for x in dgms])
vals = flat if flat.dtype.kind in "US" else flat.reshape(-1, 28)
err, step = worst_error(vals, dgms[1], 1.2, 3.9, 28)
check("transformer output: bound holds", err <= step / 2 + 1e-9,
      f"(error = {err / step:.3f} steps)")

if failures:
    print("FAIL")
    sys.exit(1)
print("PASS")
sys.exit(0)
