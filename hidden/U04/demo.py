"""C04 demo: every pixel of a persistence image is  sum_i  w(b_i, p_i) * (mass of the kernel centred at
(b_i, p_i) over the pixel's square), whatever way the imager was configured - at construction or afterwards
("PersistenceImager() attributes can be adjusted at or after instantiation").

The expected image is computed here independently of persim: for an axis-aligned Gaussian the mass over a
square is a product of two differences of 1-D normal CDFs (scipy.stats.norm); for a correlated Gaussian it is
integrated numerically (scipy.integrate.dblquad of the density).

Run from inside the tree to be tested:
    cd <tree> && PYTHONPATH=<tree> /venv/bin/python /tmp/ref_U04/demo.py
prints PASS / exits 0 when all images agree with the integrals, FAIL / exits 1 otherwise.
"""
import sys
import warnings

import numpy as np

warnings.simplefilter("ignore")
import matplotlib

matplotlib.use("Agg")
from scipy.integrate import dblquad
from scipy.stats import multivariate_normal, norm

import persim
from persim import PersistenceImager


def corners(imgr):
    """pixel boundaries, recomputed from the public attributes only"""
    nb, npx = imgr.resolution
    b0, p0, px = imgr.birth_range[0], imgr.pers_range[0], imgr.pixel_size
    return b0 + px * np.arange(nb + 1), p0 + px * np.arange(npx + 1)


def expected_image(imgr, dgm, weight, cov):
    """independent evaluation of the defining formula; dgm in birth-death coordinates"""
    cov = np.asarray(cov, dtype=float)
    bp, pp = corners(imgr)
    img = np.zeros((len(bp) - 1, len(pp) - 1))
    for b, d in dgm:
        p = d - b
        if cov[0, 1] == 0.0:
            mb = np.diff(norm.cdf(bp, loc=b, scale=np.sqrt(cov[0, 0])))
            mp = np.diff(norm.cdf(pp, loc=p, scale=np.sqrt(cov[1, 1])))
            mass = np.outer(mb, mp)
        else:
            pdf = multivariate_normal(mean=[b, p], cov=cov).pdf
            mass = np.array([[dblquad(lambda y, x: pdf([x, y]), bp[i], bp[i + 1], pp[j], pp[j + 1],
                                      epsabs=1e-10, epsrel=1e-10)[0]
                              for j in range(len(pp) - 1)] for i in range(len(bp) - 1)])
        img += weight(b, p) * mass
    return img


def check(name, got, want, tol):
    err = float(np.max(np.abs(np.asarray(got) - want)))
    ok = np.asarray(got).shape == want.shape and err <= tol
    print("  %-66s max|diff| = %.3e  %s" % (name, err, "ok" if ok else "MISMATCH"))
    return ok


def main():
    print("persim imported from", persim.__file__)
    dgm = np.array([[0.10, 0.95], [0.45, 0.70], [0.80, 2.10], [1.30, 1.35], [-0.40, 0.30]])
    results = []

    # 1. configured at construction only
    wide = [[0.30, 0.0], [0.0, 0.30]]
    imgr = PersistenceImager(birth_range=(0.0, 1.0), pers_range=(0.0, 1.5), pixel_size=0.25,
                             kernel_params={"sigma": wide})
    results.append(check("sigma given at construction (isotropic 0.30)", imgr.transform(dgm),
                         expected_image(imgr, dgm, lambda b, p: p, wide), 1e-10))

    # 2. the same imager, kernel adjusted after instantiation: a narrower, axis-aligned kernel
    narrow = [[0.02, 0.0], [0.0, 0.05]]
    imgr.kernel_params = {"sigma": narrow}
    results.append(check("kernel_params re-assigned afterwards (diag 0.02, 0.05)", imgr.transform(dgm),
                         expected_image(imgr, dgm, lambda b, p: p, narrow), 1e-10))

    # 3. ... and once more, to a single variance, with a different weight and pixel grid
    imgr.kernel_params = {"sigma": 0.01}
    imgr.weight_params = {"n": 2.0}
    imgr.pixel_size = 0.5
    results.append(check("then sigma=0.01 (scalar), n=2, pixel_size=0.5", imgr.transform(dgm),
                         expected_image(imgr, dgm, lambda b, p: p ** 2, [[0.01, 0.0], [0.0, 0.01]]), 1e-10))

    # 4. a default imager whose kernel is then made correlated (general path, numerical integration)
    imgr2 = PersistenceImager(birth_range=(0.0, 1.0), pers_range=(0.0, 1.0), pixel_size=0.5)
    corr = [[0.20, 0.12], [0.12, 0.15]]
    imgr2.kernel_params = {"sigma": corr}
    results.append(check("default imager, then correlated sigma (r = 0.69)", imgr2.transform(dgm[:3]),
                         expected_image(imgr2, dgm[:3], lambda b, p: p, corr), 1e-6))

    # 5. list of diagrams through the same reconfigured imager
    imgs = imgr2.transform([dgm[:2], dgm[2:3]])
    results.append(check("list of diagrams, first", imgs[0], expected_image(imgr2, dgm[:2], lambda b, p: p, corr), 1e-6))
    results.append(check("list of diagrams, second", imgs[1], expected_image(imgr2, dgm[2:3], lambda b, p: p, corr), 1e-6))

    if all(results):
        print("PASS")
        return 0
    print("FAIL")
    return 1


if __name__ == "__main__":
    sys.exit(main())
