"""Demo for property C20: infinite deaths are placed on a horizontal infinity
line drawn INSIDE the axes (here: in lifetime mode).

Run from inside the tree under test:
    cd /tmp/wt_M20 && PYTHONPATH=/tmp/wt_M20 /venv/bin/python /tmp/ref_M20/demo.py
Prints PASS / exits 0 when the property holds, prints FAIL / exits 1 otherwise.
"""
import sys

import matplotlib
matplotlib.use("Agg")
import matplotlib.pyplot as plt
import numpy as np

from persim import plot_diagrams


def check(diagrams, **kwargs):
    """Return a list of violations for one call of plot_diagrams."""
    fig, ax = plt.subplots()
    plot_diagrams(diagrams, ax=ax, **kwargs)
    problems = []

    y_lo, y_hi = ax.get_ylim()
    x_lo, x_hi = ax.get_xlim()

    inf_lines = [ln for ln in ax.lines if ln.get_label() == r"$\infty$"]
    if len(inf_lines) != 1:
        problems.append("expected exactly one infinity line, got %d" % len(inf_lines))
        plt.close(fig)
        return problems
    ys = np.asarray(inf_lines[0].get_ydata(), dtype=float)
    if ys[0] != ys[1]:
        problems.append("infinity line is not horizontal: %r" % (ys,))
    level = ys[0]
    if not (y_lo <= level <= y_hi):
        problems.append(
            "infinity line at y=%g lies outside the y-limits [%g, %g]" % (level, y_lo, y_hi)
        )

    dgm_list = diagrams if isinstance(diagrams, list) else [diagrams]
    for dgm, coll in zip(dgm_list, ax.collections):
        off = np.asarray(coll.get_offsets(), dtype=float)
        inf_rows = np.isinf(dgm[:, 1])
        # infinite deaths sit on the infinity line ...
        if not np.all(off[inf_rows, 1] == np.float32(level)):
            problems.append("infinite points are not on the infinity line")
        # ... and every drawn point is visible
        if off.size and not (
            np.all(off[:, 0] >= x_lo) and np.all(off[:, 0] <= x_hi)
            and np.all(off[:, 1] >= y_lo) and np.all(off[:, 1] <= y_hi)
        ):
            problems.append(
                "some plotted points fall outside the axes: y in [%g, %g], limits [%g, %g]"
                % (off[:, 1].min(), off[:, 1].max(), y_lo, y_hi)
            )
    plt.close(fig)
    return problems


def main():
    # H0-like diagram with one essential class; all births well above zero.
    dgm = np.array([[1.0, 1.5], [1.2, 2.0], [1.1, np.inf]])
    other = np.array([[1.3, 1.9], [1.6, 2.0]])

    cases = [
        ("birth/death, one diagram", dgm, {}),
        ("birth/death, two diagrams", [dgm, other], {}),
        ("lifetime, one diagram", dgm, {"lifetime": True}),
        ("lifetime, two diagrams", [dgm, other], {"lifetime": True}),
        ("lifetime, explicit range", dgm, {"lifetime": True, "xy_range": [0.5, 2.5, 0.5, 2.5]}),
    ]

    failed = False
    for name, diagrams, kwargs in cases:
        problems = check(diagrams, **kwargs)
        for p in problems:
            print("  [%s] %s" % (name, p))
        failed = failed or bool(problems)

    if failed:
        print("FAIL")
        return 1
    print("PASS")
    return 0


if __name__ == "__main__":
    sys.exit(main())
