"""
Demo for property C01 (bottleneck distance is the true min-max matching cost;
points with infinite death are dropped with a warning and do not influence the
value).

Run from inside the worktree so that the worktree copy of persim is imported:
    cd /tmp/wt_H01 && PYTHONPATH=/tmp/wt_H01 /venv/bin/python /tmp/ref_H01/demo.py

Prints PASS and exits 0 when every case agrees with an independent brute-force
oracle, prints FAIL and exits 1 otherwise.
"""

import itertools
import sys
import warnings

import numpy as np

import persim
from persim import bottleneck


def oracle(dgm1, dgm2):
    """Brute-force min over all pairings of the max pairing cost (finite points only)."""
    A = [(float(b), float(d)) for b, d in dgm1 if np.isfinite(d)]
    B = [(float(b), float(d)) for b, d in dgm2 if np.isfinite(d)]
    m, n = len(A), len(B)
    if m + n == 0:
        return 0.0
    size = m + n
    C = [[0.0] * size for _ in range(size)]
    for i in range(size):
        for j in range(size):
            if i < m and j < n:
                C[i][j] = max(abs(A[i][0] - B[j][0]), abs(A[i][1] - B[j][1]))
            elif i < m:  # A[i] -> its own diagonal slot
                C[i][j] = (A[i][1] - A[i][0]) / 2 if j - n == i else float("inf")
            elif j < n:  # B[j] -> its own diagonal slot
                C[i][j] = (B[j][1] - B[j][0]) / 2 if i - m == j else float("inf")
            else:
                C[i][j] = 0.0
    best = float("inf")
    for perm in itertools.permutations(range(size)):
        worst = max(C[i][perm[i]] for i in range(size))
        if worst < best:
            best = worst
    return best


INF = np.inf
CASES = [
    # control: essential class listed last (the order ripser uses)
    ("inf last", [[0.0, 1.0], [0.2, 0.5], [0.0, INF]], [[0.0, 1.1]]),
    # essential class listed first (birth-sorted order, e.g. H0 from GUDHI)
    ("inf first", [[0.0, INF], [0.0, 1.0], [0.2, 0.5]], [[0.0, 1.1]]),
    ("inf first, vs empty", [[0.0, INF], [0.0, 1.0], [0.2, 0.6]], np.zeros((0, 2))),
    ("inf in the middle", [[0.0, 1.0], [0.1, INF], [0.2, 0.5]], [[0.0, 1.1], [0.3, 0.4]]),
    ("inf first in dgm2", [[0.0, 1.1]], [[0.0, INF], [0.0, 1.0], [0.2, 0.5]]),
    ("inf first in both", [[0.0, INF], [1.0, 3.0]], [[0.0, INF], [1.0, 3.5], [2.0, 2.2]]),
    ("same diagram, inf first", [[0.0, INF], [0.0, 2.0], [0.5, 0.75]],
     [[0.0, INF], [0.0, 2.0], [0.5, 0.75]]),
    ("integer coordinates", [[0, INF], [0, 4], [1, 2]], [[0, 5]]),
]


def main():
    print("persim imported from", persim.__file__)
    failures = 0
    for label, d1, d2 in CASES:
        d1 = np.array(d1, dtype=float)
        d2 = np.array(d2, dtype=float)
        want = oracle(d1, d2)
        with warnings.catch_warnings():
            warnings.simplefilter("ignore")
            try:
                got = float(bottleneck(d1, d2))
                got_m = float(bottleneck(d1, d2, matching=True)[0])
            except Exception as exc:  # a crash is a violation too
                got = got_m = "%s: %s" % (type(exc).__name__, exc)
        ok = got == want and got_m == want
        failures += not ok
        print(
            "  %-26s expected %-8r got %-22r (matching=True: %r)  %s"
            % (label, want, got, got_m, "ok" if ok else "MISMATCH")
        )

    # dropping the infinite points by hand must give the same number
    d1 = np.array([[0.0, INF], [0.0, 1.0], [0.2, 0.5]])
    d2 = np.array([[0.0, 1.1]])
    with warnings.catch_warnings():
        warnings.simplefilter("ignore")
        with_inf = bottleneck(d1, d2)
    without_inf = bottleneck(d1[1:], d2)
    ok = with_inf == without_inf
    failures += not ok
    print(
        "  infinite point present: %r, removed by hand: %r  %s"
        % (float(with_inf), float(without_inf), "ok" if ok else "MISMATCH")
    )

    if failures:
        print("FAIL")
        return 1
    print("PASS")
    return 0


if __name__ == "__main__":
    sys.exit(main())
