"""Demo for property C08: grid landscapes stay within half a step of the true landscape.

Run from inside the worktree:
    cd /tmp/wt_P08 && PYTHONPATH=/tmp/wt_P08 /venv/bin/python /tmp/ref_P08/demo.py

Prints PASS and exits 0 when every sampled value of PersLandscapeApprox (and of the
scikit-learn transformer) is within half a grid step of the true landscape at that
grid point and depth; prints FAIL and exits 1 otherwise.
"""
import contextlib
import io
import sys

import numpy as np

import persim
from persim import PersLandscapeApprox, PersistenceLandscaper


def true_landscape(bars, grid, depth):
    """depth x len(grid) array: k-th largest tent height at every grid point."""
    bars = np.asarray(bars, dtype=float)
    tents = np.minimum(grid[None, :] - bars[:, [0]], bars[:, [1]] - grid[None, :])
    tents = np.clip(tents, 0.0, None)
    tents = -np.sort(-tents, axis=0)
    out = np.zeros((depth, len(grid)))
    k = min(depth, len(bars))
    out[:k] = tents[:k]
    return out


def check(name, dgms, hom_deg, start, stop, num_steps):
    bars = dgms[hom_deg]
    with contextlib.redirect_stdout(io.StringIO()):
        pla = PersLandscapeApprox(
            dgms=dgms, hom_deg=hom_deg, start=start, stop=stop, num_steps=num_steps
        )
        tr = PersistenceLandscaper(
            hom_deg=hom_deg, start=start, stop=stop, num_steps=num_steps
        ).fit_transform(dgms)
    grid, step = np.linspace(pla.start, pla.stop, pla.num_steps, retstep=True)
    depth = len(bars)  # no more than one non-zero depth per bar
    problems = []
    for label, vals in (("PersLandscapeApprox.values", pla.values), ("fit_transform", tr)):
        got = np.zeros((depth, num_steps))
        if vals.dtype.kind == "f":  # depths that are not returned count as zero
            got[: len(vals)] = vals
        err = np.abs(got - true_landscape(bars, grid, depth)).max()
        if err > step / 2 + 1e-9:
            problems.append(f"{label}: max error {err:.4g} > half step {step / 2:.4g}")
    status = "ok" if not problems else "VIOLATION"
    print(f"  [{status}] {name}")
    for p in problems:
        print("      ", p)
    return not problems


def main():
    print("persim imported from", persim.__file__)
    ok = True
    # 1. plain diagrams: every bar spans several grid cells
    ok &= check(
        "long bars only",
        [np.array([[0.0, 3.0], [1.0, 4.0], [0.5, 2.25]])],
        0, None, None, 41,
    )
    # 2. a point on the diagonal listed before the long bars (as in ripser output,
    #    where short-lived noise comes first)
    ok &= check(
        "diagonal point first",
        [np.array([[1.0, 1.0], [0.0, 4.0], [2.0, 5.0]])],
        0, 0, 5, 11,
    )
    # 3. noise shorter than one grid cell mixed with real features, degree 1
    ok &= check(
        "sub-cell noise, hom_deg=1",
        [
            np.array([[0.0, 1.0]]),
            np.array([[0.30, 0.31], [0.10, 0.90], [0.52, 0.53], [0.25, 0.70]]),
        ],
        1, 0.0, 1.0, 21,
    )
    # 4. same bars with the noise listed last
    ok &= check(
        "sub-cell noise listed last",
        [np.array([[0.10, 0.90], [0.25, 0.70], [0.30, 0.31], [0.52, 0.53]])],
        0, 0.0, 1.0, 21,
    )
    # 5. negative coordinates, integer-typed, bar of one cell in the middle
    ok &= check(
        "integer diagram, one-cell bar in the middle",
        [np.array([[-4, 2], [-1, 0], [-3, 3]])],
        0, -4, 4, 9,
    )
    if ok:
        print("PASS")
        return 0
    print("FAIL")
    return 1


if __name__ == "__main__":
    sys.exit(main())
