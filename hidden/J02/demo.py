"""
C02 demo: persim.wasserstein must return the true min-sum partial-matching cost.

Compares wasserstein() with an independent brute force over every partial
matching (pair p<->q costs ||p-q||, an unmatched (b,d) costs (d-b)/sqrt(2))
on small diagrams of UNEQUAL sizes, where the optimal matching mixes cross
pairings and diagonal pairings.

Run:  cd <worktree> && PYTHONPATH=<worktree> /venv/bin/python /tmp/ref_J02/demo.py
"""
import itertools
import sys
import warnings

import numpy as np

import persim
from persim import wasserstein


def diag_cost(p):
    return (p[1] - p[0]) / np.sqrt(2)


def brute_force(A, B):
    """Minimum over all partial matchings between the rows of A and B."""
    A, B = list(map(tuple, A)), list(map(tuple, B))
    best = np.inf
    for k in range(min(len(A), len(B)) + 1):
        for ia in itertools.combinations(range(len(A)), k):
            rest_a = sum(diag_cost(A[i]) for i in range(len(A)) if i not in ia)
            for jb in itertools.permutations(range(len(B)), k):
                cost = rest_a
                cost += sum(diag_cost(B[j]) for j in range(len(B)) if j not in jb)
                cost += sum(np.hypot(A[i][0] - B[j][0], A[i][1] - B[j][1])
                            for i, j in zip(ia, jb))
                best = min(best, cost)
    return best


def cases():
    # one point against the same point plus a short-lived one
    yield np.array([[0.0, 1.0]]), np.array([[0.0, 1.0], [0.0, 0.1]])
    yield np.array([[0.0, 1.0], [0.0, 0.1]]), np.array([[0.0, 1.0]])
    # 2 against 4 and 3 against 1, nearly identical long bars + noise
    yield (np.array([[0.0, 2.0], [1.0, 3.0]]),
           np.array([[0.0, 2.1], [1.0, 3.1], [0.5, 0.6], [2.0, 2.05]]))
    yield (np.array([[0.2, 0.3], [0.0, 5.0], [1.0, 1.2]]), np.array([[0.1, 5.0]]))
    rng = np.random.default_rng(20240)
    for _ in range(40):
        m, n = rng.integers(1, 5, size=2)
        scale = 10.0 ** rng.integers(-3, 4)
        out = []
        for k in (m, n):
            b = rng.uniform(-1, 1, size=k) * scale
            out.append(np.column_stack((b, b + rng.uniform(0, 1, size=k) * scale)))
        yield tuple(out)


def main():
    print("persim imported from", persim.__file__)
    failures = 0
    total = 0
    for A, B in cases():
        total += 1
        want = brute_force(A, B)
        try:
            with warnings.catch_warnings():
                warnings.simplefilter("ignore")
                got = wasserstein(A, B)
        except Exception as exc:  # an infeasible cost matrix also counts
            got = exc
        ok = isinstance(got, float) and abs(got - want) <= 1e-9 * max(1.0, abs(want), np.abs(A).max(), np.abs(B).max())
        if not ok:
            failures += 1
            if failures <= 5:
                print("MISMATCH sizes %dx%d: wasserstein=%r  brute force=%r"
                      % (len(A), len(B), got, want))
                print("  dgm1 =", A.tolist())
                print("  dgm2 =", B.tolist())
    print("%d / %d cases disagree with the brute-force optimum" % (failures, total))
    if failures:
        print("FAIL")
        return 1
    print("PASS")
    return 0


if __name__ == "__main__":
    sys.exit(main())
