"""C13 demo: the Gaussian kernel must be the bivariate normal CDF for every evaluation point,
including points handed over as an integer-typed array (pixel corners on an integer grid) and
correlations on both sides of the 0.925 branch threshold.

usage: cd /tmp/wt_P13 && PYTHONPATH=/tmp/wt_P13 /venv/bin/python /tmp/ref_P13/demo.py
prints PASS / exits 0 when the property holds, prints FAIL / exits 1 otherwise.
"""
import sys
import warnings

import numpy as np
from scipy.stats import multivariate_normal

from persim import images_kernels as K

warnings.simplefilter("ignore")
TOL = 1e-7
problems = []

mu = np.array([0.5, -0.25])
grid = np.arange(-3, 5)                                  # integer-typed pixel corners
bb, pp = (a.flatten() for a in np.meshgrid(grid, grid, indexing="ij"))
assert bb.dtype.kind == "i"

for r in (0.2, -0.6, 0.9, 0.93, -0.95, 0.99):
    var_x, var_y = 1.7, 0.6
    cov = r * np.sqrt(var_x * var_y)
    sigma = np.array([[var_x, cov], [cov, var_y]])
    ref = multivariate_normal(mean=mu, cov=sigma, allow_singular=True).cdf(
        np.column_stack([bb, pp]).astype(float))

    got_int = K.gaussian(bb, pp, mu=mu, sigma=sigma)                 # integer-typed points
    got_flt = K.gaussian(bb.astype(float), pp.astype(float), mu=mu, sigma=sigma)

    # 1. same points, same answer whatever the dtype they arrive in
    d = np.max(np.abs(got_int - got_flt))
    if not d <= 1e-12:
        problems.append("r=%+.2f: integer-typed and float points disagree by %.3g" % (r, d))
    # 2. accuracy against a reference bivariate normal CDF (scipy's is good to ~1e-8 here)
    d = np.max(np.abs(got_int - ref))
    if not d <= 5e-7:
        problems.append("r=%+.2f: differs from reference CDF by %.3g" % (r, d))
    # 3. range and non-negative rectangle masses on the grid
    if got_int.min() < -TOL or got_int.max() > 1 + TOL:
        problems.append("r=%+.2f: values outside [0,1]: [%.3g, %.3g]" % (r, got_int.min(), got_int.max()))
    img = got_int.reshape(len(grid), len(grid))
    mass = img[1:, 1:] - img[:-1, 1:] - img[1:, :-1] + img[:-1, :-1]
    if mass.min() < -TOL:
        problems.append("r=%+.2f: a pixel receives negative mass %.3g" % (r, mass.min()))

if problems:
    print("FAIL")
    for p in problems:
        print("  " + p)
    sys.exit(1)
print("PASS")
sys.exit(0)
