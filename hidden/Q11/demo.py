"""C11 demo: a diagram must give the same image whether it is passed alone or inside a
collection, and whether the collection is processed serially or with n_jobs workers.

Run from inside the worktree so that the worktree copy of persim is imported:
    cd /tmp/wt_Q11 && PYTHONPATH=/tmp/wt_Q11 /venv/bin/python /tmp/ref_Q11/demo.py
Prints PASS / exits 0 when the property holds, prints FAIL / exits 1 otherwise.
"""
import sys
import warnings

warnings.filterwarnings("ignore")

import numpy as np
from persim import PersistenceImager

rng = np.random.default_rng(11)
failures = []


def same_image(a, b):
    return (
        isinstance(a, np.ndarray)
        and isinstance(b, np.ndarray)
        and a.shape == b.shape
        and np.array_equal(a, b)
    )


for trial in range(5):
    n = int(rng.integers(1, 6))
    b = rng.uniform(0, 1, n)
    dgm = np.column_stack([b, b + rng.uniform(0.05, 1, n)])
    pimgr = PersistenceImager(pixel_size=0.25, birth_range=(0, 1), pers_range=(0, 1))

    alone = pimgr.transform(dgm)
    for n_jobs in (None, 1, 2):
        # the diagram as the only member of a collection
        got = pimgr.transform([dgm], n_jobs=n_jobs)
        if not (isinstance(got, list) and len(got) == 1 and same_image(got[0], alone)):
            failures.append(
                "trial %d: transform([dgm], n_jobs=%r)[0] is not the image of dgm passed alone "
                "(got %s of shape %s)" % (trial, n_jobs, type(got).__name__, np.shape(got))
            )
        # the diagram alone, with workers requested
        got = pimgr.transform(dgm, n_jobs=n_jobs)
        if not same_image(got, alone):
            failures.append("trial %d: transform(dgm, n_jobs=%r) differs from transform(dgm)" % (trial, n_jobs))

    # larger collections: serial == parallel == alone, member by member
    other = dgm[::-1] * 0.5
    coll = [dgm, np.zeros((0, 2)), other]
    want = [alone, np.zeros(pimgr.resolution), pimgr.transform(other)]
    for n_jobs in (None, 1):
        got = pimgr.transform(coll, n_jobs=n_jobs)
        if not (len(got) == 3 and all(same_image(g, w) for g, w in zip(got, want))):
            failures.append("trial %d: 3-member collection with n_jobs=%r disagrees with the lone images" % (trial, n_jobs))

if failures:
    print("FAIL")
    for f in failures[:6]:
        print("  ", f)
    sys.exit(1)
print("PASS")
sys.exit(0)
