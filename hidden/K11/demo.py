"""C11 demo: a diagram in birth-death form (skew=True) and the same diagram
pre-converted to birth-persistence form (skew=False) must give the same
persistence image, for every kernel configuration -- here an anisotropic
Gaussian (general-kernel path) next to the default isotropic one."""
import sys
import numpy as np
import matplotlib
matplotlib.use("Agg")
from persim import PersistenceImager, images_kernels

dgm = np.array([[0.2, 1.4], [0.9, 1.3], [1.5, 2.6], [0.4, 0.9]])
bp = dgm.copy()
bp[:, 1] -= bp[:, 0]                      # pre-converted birth-persistence form

configs = {
    "isotropic gaussian (default)": dict(),
    "anisotropic gaussian": dict(kernel_params={"sigma": np.array([[0.08, 0.02], [0.02, 0.05]])}),
    "uniform kernel": dict(kernel=images_kernels.uniform, kernel_params={"width": 0.5, "height": 0.3}),
}

ok = True
for name, cfg in configs.items():
    imgr = PersistenceImager(birth_range=(0.0, 2.0), pers_range=(0.0, 2.0), pixel_size=0.1, **cfg)
    from_bd = imgr.transform(dgm, skew=True)
    from_bp = imgr.transform(bp, skew=False)
    in_coll = imgr.transform([bp, dgm], skew=True)[1]
    total_wt = float(np.sum(imgr.weight(bp[:, 0], bp[:, 1], **imgr.weight_params)))
    same = np.allclose(from_bd, from_bp, rtol=1e-10, atol=1e-12) and np.array_equal(from_bd, in_coll)
    bounded = from_bd.min() >= -1e-12 and from_bd.sum() <= total_wt + 1e-9
    print("%-30s max|bd - bp| = %.3e   total %.4f (weight %.4f)  %s"
          % (name, np.abs(from_bd - from_bp).max(), from_bd.sum(), total_wt,
             "ok" if same and bounded else "MISMATCH"))
    ok = ok and same and bounded

print("PASS" if ok else "FAIL")
sys.exit(0 if ok else 1)
