"""C10 demo: the p-norm of a landscape is the p-th root of the sum over depths of
the integral of |function|^p.

Every landscape below has at least two depths whose functions do not start
with a zero piece.  The reference value is obtained independently of persim's
norm code: each depth is integrated piece by piece with Gauss-Legendre
quadrature (exact for the polynomials |linear|^p, integer p) after splitting a
piece at its zero crossing.

Prints PASS / exits 0 when every norm matches, prints FAIL / exits 1 otherwise.
"""
import sys
import warnings

import matplotlib

matplotlib.use("Agg")
import numpy as np

warnings.simplefilter("ignore")

from persim.landscapes import PersLandscapeApprox, PersLandscapeExact

_NODES, _WEIGHTS = np.polynomial.legendre.leggauss(40)


def _integral_abs_power(x0, y0, x1, y1, p):
    """Integral of |linear interpolant|^p over [x0, x1] by quadrature."""
    cuts = [x0, x1]
    if (y0 < 0 < y1) or (y1 < 0 < y0):
        cuts = [x0, x0 + (x1 - x0) * (0 - y0) / (y1 - y0), x1]
    total = 0.0
    for a, b in zip(cuts, cuts[1:]):
        xs = 0.5 * (b - a) * _NODES + 0.5 * (a + b)
        ys = y0 + (y1 - y0) * (xs - x0) / (x1 - x0)
        total += 0.5 * (b - a) * np.dot(_WEIGHTS, np.abs(ys) ** p)
    return total


def reference_p_norm(functions, p):
    """functions: one (n_k, 2) vertex table per depth."""
    total = 0.0
    for table in functions:
        table = np.asarray(table, dtype=float)
        for (x0, y0), (x1, y1) in zip(table[:-1], table[1:]):
            total += _integral_abs_power(x0, y0, x1, y1, p)
    return total ** (1.0 / p)


def functions_of(landscape):
    landscape.compute_landscape()
    if isinstance(landscape, PersLandscapeExact):
        return [np.asarray(l, dtype=float) for l in landscape.critical_pairs]
    grid = np.linspace(landscape.start, landscape.stop, landscape.num_steps)
    return [np.column_stack([grid, row]) for row in landscape.values]


failures = []


def check(name, landscape, ps=(1, 2, 3)):
    funcs = functions_of(landscape)
    for p in ps:
        got = float(landscape.p_norm(p=p))
        want = reference_p_norm(funcs, p)
        ok = np.isfinite(got) and abs(got - want) <= 1e-9 * max(1.0, abs(want))
        print(f"  {name:42s} p={p}: p_norm={got:.12g} integral={want:.12g} "
              f"{'ok' if ok else 'MISMATCH'}")
        if not ok:
            failures.append((name, p, got, want))


dgm_a = np.array([[0.0, 6.0], [1.0, 5.0], [2.0, 8.0]])
dgm_b = np.array([[0.0, 4.0], [1.0, 7.0], [3.0, 5.0]])

# exact landscapes: three nested / overlapping bars give three depths
P = PersLandscapeExact(dgms=[dgm_a], hom_deg=0)
Q = PersLandscapeExact(dgms=[dgm_b], hom_deg=0)
check("exact, 3 bars", P)
check("exact difference P - Q", P - Q)
check("exact combination 2P - 3Q", 2 * P - 3 * Q)

# hand-written two-depth landscape whose second depth starts above zero
H = PersLandscapeExact(
    critical_pairs=[
        [[0, 0], [2, 2], [4, 0]],
        [[1, 1], [2, 0], [3, -1], [4, -1]],
    ],
    hom_deg=0,
)
check("exact, user critical pairs", H)

# grid landscapes on a window that cuts the support, so depth 2 is already
# positive on the first grid cell
A = PersLandscapeApprox(dgms=[dgm_a], hom_deg=0, start=2.5, stop=5.5, num_steps=7)
B = PersLandscapeApprox(dgms=[dgm_b], hom_deg=0, start=2.5, stop=5.5, num_steps=7)
check("grid, window inside the support", A)
check("grid difference A - B", A - B)

# consequences named by the property
one_depth = PersLandscapeExact(critical_pairs=[P.critical_pairs[0]], hom_deg=0)
if not P.p_norm(p=2) > one_depth.p_norm(p=2):
    failures.append(("adding a non-zero depth must increase the norm",))
    print("  norm of 3 depths is not larger than the norm of depth 1 alone")

if failures:
    print("FAIL")
    sys.exit(1)
print("PASS")
sys.exit(0)
