"""Demo for property C09 (landscape arithmetic is pointwise, operands untouched).

Checks, for exact landscapes built from small diagrams, that  P + Q,  Q + P,
P - Q  and  2 * P  are the pointwise operations at every depth (a missing
depth counts as zero) -- for eagerly built operands AND for operands built
with the documented option ``compute=False`` (landscape computed on first
use), and that repeating the same operation gives the same answer.

Run from inside a worktree:
    cd <tree> && PYTHONPATH=<tree> /venv/bin/python /tmp/ref_M09/demo.py
Prints PASS and exits 0 when the property holds, FAIL and exits 1 otherwise.
"""
import sys

import numpy as np

from persim import PersLandscapeExact

D1 = np.array([[0.0, 4.0], [1.0, 3.0], [2.0, 7.0]])
D2 = np.array([[0.5, 6.0], [3.0, 5.0]])
GRID = np.linspace(-1.0, 8.0, 181)


def evaluate(pl, depth):
    """Value of the depth-th landscape function on GRID (zero if missing)."""
    pl.compute_landscape()  # a landscape built with compute=False is computed on use
    pairs = pl.critical_pairs
    if depth >= len(pairs):
        return np.zeros_like(GRID)
    xs = [float(p[0]) for p in pairs[depth]]
    ys = [float(p[1]) for p in pairs[depth]]
    return np.interp(GRID, xs, ys, left=0.0, right=0.0)


def build(dgm, lazy):
    return PersLandscapeExact(dgms=[dgm.copy()], hom_deg=0, compute=not lazy)


def pointwise(result, expected_fn, label, problems):
    depths = max(result.max_depth, 3) + 1
    for k in range(depths):
        got, want = evaluate(result, k), expected_fn(k)
        if not np.allclose(got, want, atol=1e-9):
            problems.append(
                f"{label}: depth {k} differs from the pointwise result "
                f"(max error {np.max(np.abs(got - want)):.3g})"
            )
            return


def main():
    problems = []
    # reference functions, from eagerly computed landscapes
    RP, RQ = build(D1, lazy=False), build(D2, lazy=False)
    p = lambda k: evaluate(RP, k)  # noqa: E731
    q = lambda k: evaluate(RQ, k)  # noqa: E731
    ops = [
        ("P + Q", lambda P, Q: P + Q, lambda k: p(k) + q(k)),
        ("Q + P", lambda P, Q: Q + P, lambda k: p(k) + q(k)),
        ("P - Q", lambda P, Q: P - Q, lambda k: p(k) - q(k)),
        ("Q - P", lambda P, Q: Q - P, lambda k: q(k) - p(k)),
        ("2 * P", lambda P, Q: 2 * P, lambda k: 2 * p(k)),
        ("-P", lambda P, Q: -P, lambda k: -p(k)),
        ("P / 4", lambda P, Q: P / 4, lambda k: p(k) / 4),
    ]
    for lazy_p, lazy_q in [(False, False), (True, False), (False, True), (True, True)]:
        for name, op, expected in ops:
            tag = f"{name} [P {'lazy' if lazy_p else 'eager'}, Q {'lazy' if lazy_q else 'eager'}]"
            P, Q = build(D1, lazy_p), build(D2, lazy_q)
            try:
                first = op(P, Q)
                second = op(P, Q)
            except Exception as e:  # noqa: BLE001
                problems.append(f"{tag}: raised {type(e).__name__}: {e}")
                continue
            pointwise(first, expected, tag + " first call", problems)
            pointwise(second, expected, tag + " second call", problems)
            # operands are the same functions as before
            pointwise(P, p, tag + " operand P afterwards", problems)
            pointwise(Q, q, tag + " operand Q afterwards", problems)

    if problems:
        for line in problems:
            print("  -", line)
        print("FAIL")
        return 1
    print("PASS")
    return 0


if __name__ == "__main__":
    sys.exit(main())
