"""Demo for property C11 (persistence images are additive, order-free and call-style independent).

Run from inside the worktree so that the worktree copy of persim is imported:
    cd /tmp/wt_P11 && PYTHONPATH=/tmp/wt_P11 /venv/bin/python /tmp/ref_P11/demo.py
Prints PASS and exits 0 when every relation holds, prints FAIL and exits 1 otherwise.
"""
import sys
import warnings

import matplotlib

matplotlib.use("Agg")
import numpy as np

warnings.simplefilter("ignore")
from persim import PersistenceImager  # noqa: E402

rng = np.random.default_rng(11)
failures = []


def check(name, ok, detail=""):
    print("  [%s] %s %s" % ("ok" if ok else "VIOLATED", name, detail))
    if not ok:
        failures.append(name)


def close(x, y):
    return np.allclose(x, y, rtol=1e-9, atol=1e-9)


def diagram(n):
    b = rng.uniform(0.0, 2.0, n)
    return np.column_stack([b, b + rng.uniform(0.05, 1.5, n)])


# a wide grid, so that practically all of the Gaussian mass of every pair lands on the image
pimgr = PersistenceImager(birth_range=(-8.0, 10.0), pers_range=(-8.0, 10.0), pixel_size=0.5)

for n_a, n_b in [(3, 4), (200, 150), (400, 300), (512, 512), (900, 437)]:
    A, B = diagram(n_a), diagram(n_b)
    U = np.vstack([A, B])
    tag = "(|A|=%d, |B|=%d)" % (n_a, n_b)

    img_a, img_b, img_u = pimgr.transform(A), pimgr.transform(B), pimgr.transform(U)
    err = np.max(np.abs(img_u - (img_a + img_b)))
    check("additivity img(A+B) == img(A) + img(B) " + tag, close(img_u, img_a + img_b), "max err %.3g" % err)

    perm = rng.permutation(len(U))
    check("order of the pairs is irrelevant " + tag, close(pimgr.transform(U[perm]), img_u))

    total_weight = np.sum(U[:, 1] - U[:, 0])
    check(
        "no negative pixel, pixel total <= total weight " + tag,
        img_u.min() >= -1e-12 and img_u.sum() <= total_weight * (1 + 1e-9),
        "total %.6f vs weight %.6f" % (img_u.sum(), total_weight),
    )

    Z = np.vstack([U, np.column_stack([rng.uniform(0, 2, 50)] * 2)])  # 50 pairs on the diagonal: weight 0
    check("pairs of zero weight contribute nothing " + tag, close(pimgr.transform(Z), img_u))

    alone, (in_coll, _) = img_u, pimgr.transform([U, A])
    check("alone == inside a collection " + tag, close(alone, in_coll))

    bp = U.copy()
    bp[:, 1] -= bp[:, 0]
    check("birth-death == pre-converted birth-persistence " + tag, close(pimgr.transform(bp, skew=False), img_u))

# serial == parallel, once, on a collection with small and large diagrams
coll = [diagram(5), diagram(700), diagram(0 + 1), diagram(1100)]
ser = pimgr.transform(coll)
par = pimgr.transform(coll, n_jobs=2)
check("serial == parallel", all(close(s, p) for s, p in zip(ser, par)))
check("additivity across a collection", close(pimgr.transform(np.vstack(coll)), np.sum(ser, axis=0)))

# empty diagram
empty = pimgr.transform(np.zeros((0, 2)))
check("empty diagram -> zero image of the configured resolution", empty.shape == pimgr.resolution and not empty.any())

if failures:
    print("FAIL (%d relation(s) violated)" % len(failures))
    sys.exit(1)
print("PASS")
sys.exit(0)
