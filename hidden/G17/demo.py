"""
Demo for property C17 (mGH collection call returns symmetric matrices whose
entries bracket each pairwise distance).

Run from inside the worktree:
    cd /tmp/wt_G17 && PYTHONPATH=/tmp/wt_G17 /venv/bin/python /tmp/ref_G17/demo.py

Prints PASS / exits 0 when the property holds, prints FAIL / exits 1 otherwise.
"""
import sys
import warnings

import numpy as np
import scipy.sparse as sps

from persim import gromov_hausdorff


def path_graph(n):
    A = np.zeros((n, n), dtype=int)
    for k in range(n - 1):
        A[k, k + 1] = 1
    return A


def clique(n):
    return np.triu(np.ones((n, n), dtype=int), 1)


def main():
    # A collection of FOUR graphs (the existing test suite only uses three).
    # Known exact distances to the one-point space: mGH(G, *) = diam(G) / 2.
    graphs = [
        [[0]],                          # one-point space, nested lists
        path_graph(2),                  # K2, dense upper-triangular
        sps.csr_matrix(path_graph(5)),  # P5, sparse
        clique(4) + clique(4).T,        # K4, dense symmetric
    ]
    n = len(graphs)
    problems = []

    with warnings.catch_warnings():
        warnings.simplefilter("ignore")
        np.random.seed(0)
        lbs, ubs = gromov_hausdorff(graphs)

        # Pairwise reference brackets; lower bounds are deterministic.
        pair_lb = np.zeros((n, n))
        for i in range(n):
            for j in range(n):
                if i != j:
                    np.random.seed(1)
                    pair_lb[i, j], _ = gromov_hausdorff(graphs[i], graphs[j])

    if lbs.shape != (n, n) or ubs.shape != (n, n):
        problems.append("wrong shape")
    if np.any(np.diag(lbs) != 0) or np.any(np.diag(ubs) != 0):
        problems.append("non-zero diagonal")
    if not np.array_equal(lbs, lbs.T):
        problems.append("lower bounds not symmetric:\n%s" % lbs)
    if not np.array_equal(ubs, ubs.T):
        problems.append("upper bounds not symmetric:\n%s" % ubs)
    if np.any(lbs > ubs):
        problems.append("lb > ub somewhere")
    if not np.array_equal(lbs, pair_lb):
        problems.append("collection lower bounds differ from pair calls:\n%s\nvs\n%s"
                        % (lbs, pair_lb))
    # Exact distances to the one-point space: 0.5 * diameter.
    exact_to_point = {1: 0.5, 2: 2.0, 3: 0.5}
    for j, d in exact_to_point.items():
        for (a, b) in ((0, j), (j, 0)):
            if not (lbs[a, b] <= d <= ubs[a, b]):
                problems.append("entry (%d,%d) = [%s, %s] does not bracket %s"
                                % (a, b, lbs[a, b], ubs[a, b], d))
    # K2 vs P5: mGH >= 0.5 * |diam K2 - diam P5| = 1.5.
    for (a, b) in ((1, 2), (2, 1)):
        if ubs[a, b] < 1.5:
            problems.append("entry (%d,%d): ub %s below true distance >= 1.5"
                            % (a, b, ubs[a, b]))

    if problems:
        print("FAIL")
        for p in problems:
            print(" -", p)
        return 1
    print("PASS")
    return 0


if __name__ == "__main__":
    sys.exit(main())
