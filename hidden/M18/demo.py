"""C18 demo: the image transformer maps a collection of diagrams element by element, in order.

Run from inside the worktree:
    cd /tmp/wt_M18 && PYTHONPATH=/tmp/wt_M18 /venv/bin/python /tmp/ref_M18/demo.py
Prints PASS and exits 0 if the property holds, prints FAIL and exits 1 otherwise.
"""
import sys
import warnings

import matplotlib

matplotlib.use("Agg")
warnings.simplefilter("ignore")

import numpy as np

from persim import PersistenceImager

rng = np.random.default_rng(18)
failures = []


def diagram(n):
    births = rng.random(n) * 2.0
    return np.column_stack([births, births + 0.2 + rng.random(n)])


for n_dgms in (1, 2, 3, 4, 5, 8):
    dgms = [diagram(3 + k) for k in range(n_dgms)]  # unequal sizes, all different

    # fit -> transform on one estimator, fit_transform on another one
    first = PersistenceImager(pixel_size=0.25)
    first.fit(dgms)
    together = first.transform(dgms)
    again = first.transform(dgms)
    combined = PersistenceImager(pixel_size=0.25).fit_transform(dgms)

    # the same fitted estimator applied to each diagram on its own
    alone = [first.transform(dgm) for dgm in dgms]

    if len(together) != n_dgms:
        failures.append("%d diagrams: %d images" % (n_dgms, len(together)))
        continue
    for k in range(n_dgms):
        if not np.array_equal(together[k], alone[k]):
            where = [j for j in range(n_dgms) if np.array_equal(together[k], alone[j])]
            failures.append(
                "%d diagrams: image %d of the collection is not the image of diagram %d (%s)"
                % (n_dgms, k, k, "it is the image of diagram %s" % where if where
                   else "all zero" if not together[k].any() else "matches no diagram")
            )
        if not np.array_equal(together[k], again[k]):
            failures.append("%d diagrams: transform not repeatable at %d" % (n_dgms, k))
        if not np.array_equal(together[k], combined[k]):
            failures.append("%d diagrams: fit+transform != fit_transform at %d" % (n_dgms, k))

for line in failures:
    print(line)
if failures:
    print("FAIL")
    sys.exit(1)
print("PASS")
sys.exit(0)
