"""C16 demo: a list of diagrams must yield the vector of the individual
Shannon entropies of the normalised bar lengths.

Run from inside the worktree:
    cd /tmp/wt_M16 && PYTHONPATH=/tmp/wt_M16 /venv/bin/python /tmp/ref_M16/demo.py
Prints PASS / exits 0 when the property holds, FAIL / exits 1 otherwise.
"""
import sys

import numpy as np

from persim.persistent_entropy import persistent_entropy


def shannon(dgm):
    lengths = dgm[:, 1] - dgm[:, 0]
    p = lengths / lengths.sum()
    return float(-(p * np.log(p)).sum())


problems = []

# Three barcodes with clearly different entropies; the last one is a single bar.
a = np.array([[0.0, 1.0], [0.0, 1.0], [2.0, 3.0], [5.0, 6.0]])  # four equal bars: log 4
b = np.array([[0.0, 1.0], [0.0, 3.0], [2.0, 4.0]])  # lengths 1, 3, 2
c = np.array([[-1.0, 2.0]])  # one bar: 0
collection = [a, b, c]

expected = np.array([shannon(d) for d in collection])
got = persistent_entropy(collection)
if got.shape != expected.shape or not np.allclose(got, expected, rtol=1e-12, atol=1e-12):
    problems.append("collection: expected %r, got %r" % (expected, got))

# The vector must agree with one call per diagram.
single = np.array([persistent_entropy(d)[0] for d in collection])
if not np.allclose(got, single, rtol=1e-12, atol=1e-12):
    problems.append("collection %r differs from one-at-a-time %r" % (got, single))

# Equal bars reach log n; reversing the collection reverses the vector.
if not np.isclose(got[0], np.log(4)):
    problems.append("four equal bars: expected log 4, got %r" % got[0])
rev = persistent_entropy(collection[::-1])
if not np.allclose(rev, expected[::-1], rtol=1e-12, atol=1e-12):
    problems.append("reversed collection: expected %r, got %r" % (expected[::-1], rev))

# Normalised variant, non-default flags: [log4/log4, H(b)/log3] = [1, <1].
norm = persistent_entropy([a, b], normalize=True)
want = np.array([1.0, shannon(b) / np.log(3)])
if not np.allclose(norm, want, rtol=1e-12, atol=1e-12):
    problems.append("normalised: expected %r, got %r" % (want, norm))

# With an infinite bar replaced by a value.
d = np.array([[0.0, 2.0], [1.0, np.inf]])
kept = persistent_entropy([d, b], keep_inf=True, val_inf=5.0)
want = np.array([shannon(np.array([[0.0, 2.0], [1.0, 5.0]])), shannon(b)])
if not np.allclose(kept, want, rtol=1e-12, atol=1e-12):
    problems.append("keep_inf: expected %r, got %r" % (want, kept))

if problems:
    for line in problems:
        print(line)
    print("FAIL")
    sys.exit(1)
print("PASS")
sys.exit(0)
