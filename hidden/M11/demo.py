"""Property C11 demo: persistence images are additive and call-style independent,
and an empty diagram yields an all-zero image of the configured resolution.

Run from inside the tree under test, e.g.
    cd /tmp/wt_M11 && PYTHONPATH=/tmp/wt_M11 /venv/bin/python /tmp/ref_M11/demo.py
Prints PASS and exits 0 if the property holds on the probes below, FAIL / 1 otherwise.
"""
import sys
import warnings

import matplotlib

matplotlib.use("Agg")
warnings.filterwarnings("ignore")

import numpy as np  # noqa: E402

from persim import PersistenceImager  # noqa: E402

failures = []


def check(label, cond):
    if not cond:
        failures.append(label)


# a non-square image: 6 birth pixels by 2 persistence pixels
imgr = PersistenceImager(birth_range=(0.0, 3.0), pers_range=(0.0, 1.0), pixel_size=0.5)
assert imgr.resolution == (6, 2)

A = np.array([[0.5, 1.0], [1.0, 1.75], [2.0, 2.25]])
E = np.zeros((0, 2))

for kwargs in ({}, {"n_jobs": 1}, {"skew": False}):
    tag = "transform(%s)" % ", ".join("%s=%r" % kv for kv in kwargs.items())
    alone_A = imgr.transform(A, **kwargs)
    alone_E = imgr.transform(E, **kwargs)
    try:
        in_coll = imgr.transform([A, E], **kwargs)
    except Exception as exc:  # noqa: BLE001
        failures.append("%s on [A, empty] raised %s" % (tag, type(exc).__name__))
        continue

    # an empty diagram yields an all-zero image of the configured resolution
    check("%s: empty diagram alone has shape %r, resolution is %r" % (tag, alone_E.shape, imgr.resolution),
          alone_E.shape == imgr.resolution and not alone_E.any())
    check("%s: empty diagram inside a collection has shape %r, resolution is %r"
          % (tag, in_coll[1].shape, imgr.resolution),
          in_coll[1].shape == imgr.resolution and not in_coll[1].any())

    # the same image alone or inside a collection
    check("%s: A alone differs from A inside a collection" % tag, np.array_equal(alone_A, in_coll[0]))
    check("%s: empty alone differs from empty inside a collection" % tag,
          alone_E.shape == in_coll[1].shape and np.array_equal(alone_E, in_coll[1]))

    # additivity: image(A u empty) == image(A) + image(empty)
    union = imgr.transform(np.vstack([A, E]), **kwargs)
    try:
        total = in_coll[0] + in_coll[1]
        check("%s: image(A u empty) != image(A) + image(empty)" % tag,
              total.shape == union.shape and np.allclose(total, union, rtol=1e-12, atol=1e-14))
    except ValueError as exc:
        failures.append("%s: image(A) + image(empty) cannot even be formed: %s" % (tag, exc))

# additivity over a real split, with an empty part in the middle of the collection
B = np.array([[0.25, 0.5], [2.5, 3.0]])
parts = imgr.transform([A, E, B])
whole = imgr.transform(np.vstack([A, B]))
try:
    check("image(A u B) != sum of the images of [A, empty, B]",
          np.allclose(sum(parts), whole, rtol=1e-12, atol=1e-14))
except ValueError as exc:
    failures.append("images of [A, empty, B] cannot be summed: %s" % exc)

if failures:
    print("FAIL")
    for f in failures:
        print("  -", f)
    sys.exit(1)
print("PASS")
sys.exit(0)
