"""Demo for property C03: the exact landscape equals the k-th-largest-tent definition.

Run from inside the worktree so that the worktree's persim is imported:
  cd /tmp/wt_P03 && PYTHONPATH=/tmp/wt_P03 /venv/bin/python /tmp/ref_P03/demo.py

Prints PASS / exits 0 when every diagram below (each given in several input
orders) yields critical pairs whose linear interpolation is the k-th largest
tent value at every probed t and every depth k; prints FAIL / exits 1 otherwise.
"""
import itertools
import sys

import numpy as np

from persim import PersLandscapeExact


def kth_tents(bars, t):
    return sorted((max(0.0, min(t - b, d - t)) for b, d in bars), reverse=True)


def interpolate(pairs, t):
    xs = [float(p[0]) for p in pairs]
    ys = [float(p[1]) for p in pairs]
    if any(x1 < x0 for x0, x1 in zip(xs, xs[1:])):
        return None  # critical points not ordered by abscissa
    if not xs or t < xs[0] or t > xs[-1]:
        return 0.0
    vals = []
    for i in range(len(xs) - 1):
        x0, x1, y0, y1 = xs[i], xs[i + 1], ys[i], ys[i + 1]
        if x0 <= t <= x1:
            vals.append(y0 if x1 == x0 else y0 + (y1 - y0) * (t - x0) / (x1 - x0))
    return max(vals) if vals else ys[0]


def mismatch(bars, critical_pairs, tol=1e-9):
    bars = [(float(b), float(d)) for b, d in bars]
    ts = {x for b, d in bars for x in (b, d, (b + d) / 2)}
    ts |= {(b2 + d) / 2 for (b, d), (b2, d2) in itertools.product(bars, bars)}
    ts = sorted(ts)
    ts += [(p + q) / 2 for p, q in zip(ts, ts[1:])]
    ts += [min(ts) - 1.0, max(ts) + 1.0]
    n = len(bars)
    for t in ts:
        want = kth_tents(bars, t)
        for k in range(max(n, len(critical_pairs))):
            w = want[k] if k < n else 0.0
            g = interpolate(critical_pairs[k], t) if k < len(critical_pairs) else 0.0
            if g is None:
                pts = [[float(x), float(y)] for x, y in critical_pairs[k]]
                return f"depth {k + 1}: critical points not ordered by abscissa: {pts}"
            if abs(g - w) > tol:
                return f"depth {k + 1}, t={t}: landscape gives {g}, definition gives {w}"
    return None


DIAGRAMS = [
    # textbook example of the suite
    np.array([[1.0, 5.0], [2.0, 8.0], [3.0, 4.0], [5.0, 9.0], [6.0, 7.0]]),
    # two overlapping bars
    np.array([[1.0, 5.0], [2.0, 8.0]]),
    # integer-typed, negative coordinates, nested + overlapping
    np.array([[-3, 1], [-1, 2], [0, 4]]),
    # disjoint and touching bars
    np.array([[0.0, 1.0], [1.0, 3.0], [4.0, 6.0]]),
    # small scale
    np.array([[1e-6, 5e-6], [2e-6, 8e-6], [3e-6, 4e-6]]),
]

failures = []
n_checked = 0
for dgm in DIAGRAMS:
    for perm in itertools.permutations(range(len(dgm))):
        arr = dgm[list(perm)]
        # a second, unrelated diagram in degree 1 makes sure hom_deg=0 selects `arr`
        P = PersLandscapeExact(dgms=[arr.copy(), np.array([[0.0, 1.0]])], hom_deg=0)
        msg = mismatch(arr, P.critical_pairs)
        n_checked += 1
        if msg is not None:
            failures.append((arr.tolist(), msg))

print(f"checked {n_checked} (diagram, input order) combinations")
if failures:
    for bars, msg in failures[:5]:
        print("  input", bars, "->", msg)
    print(f"FAIL ({len(failures)} combinations disagree with the definition)")
    sys.exit(1)
print("PASS")
sys.exit(0)
