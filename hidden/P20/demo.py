"""C20 demo: infinite deaths must sit on an infinity line drawn INSIDE the axes,
for every option combination (here: lifetime on/off, xy_range given or not,
supplied axes current or not).

Run from inside the worktree:
    cd /tmp/wt_P20 && PYTHONPATH=/tmp/wt_P20 /venv/bin/python /tmp/ref_P20/demo.py
Prints PASS / exits 0 when the property holds, FAIL / exits 1 otherwise.
"""
import sys, warnings
import numpy as np
import matplotlib
matplotlib.use("Agg")
import matplotlib.pyplot as plt
warnings.filterwarnings("ignore")

from persim import plot_diagrams

# H0 with one essential class, H1 finite; births well away from the origin
dgms = [
    np.array([[10.0, np.inf], [10.5, 12.0], [11.0, 14.0]]),
    np.array([[12.0, 15.0], [13.0, 19.0], [14.0, 20.0]]),
]

failures = []


def check(tag, **kw):
    fig, ax = plt.subplots()
    if kw.pop("_not_current", False):
        plt.subplots()                       # make another axes the current one
        kw["ax"] = ax
    plot_diagrams(dgms, show=False, **kw)
    fig.canvas.draw()
    lifetime = kw.get("lifetime", False)
    y_lo, y_hi = sorted(ax.get_ylim())
    x_lo, x_hi = sorted(ax.get_xlim())

    inf_lines = [l for l in ax.lines if l.get_label() == r"$\infty$"]
    if len(inf_lines) != 1:
        failures.append("%s: expected one infinity line, got %d" % (tag, len(inf_lines)))
        plt.close("all"); return
    ys = np.asarray(inf_lines[0].get_ydata(), float)
    b_inf = ys[0]
    if not (ys[0] == ys[1] and y_lo < b_inf < y_hi):
        failures.append("%s: infinity line at y=%g is outside the axes ylim=(%g, %g)"
                        % (tag, b_inf, y_lo, y_hi))

    colls = ax.collections
    if len(colls) != len(dgms):
        failures.append("%s: %d collections for %d diagrams" % (tag, len(colls), len(dgms)))
        plt.close("all"); return
    for dgm, coll in zip(dgms, colls):
        off = np.asarray(coll.get_offsets(), float)
        want = dgm.astype(np.float32).astype(float)
        if lifetime:
            want[:, 1] = (dgm[:, 1].astype(np.float32) - dgm[:, 0].astype(np.float32)).astype(float)
        isinf = np.isinf(want[:, 1])
        fin = ~isinf
        if not np.allclose(off[fin], want[fin], rtol=1e-6, atol=0):
            failures.append("%s: finite points are not the diagram's points" % tag)
        if not np.allclose(off[isinf, 0], want[isinf, 0], rtol=1e-6):
            failures.append("%s: births of essential classes changed" % tag)
        # essential classes sit on the infinity line ...
        if not np.allclose(off[isinf, 1], b_inf, rtol=1e-5, atol=0):
            failures.append("%s: essential classes are not on the infinity line" % tag)
        # ... and are visible
        if not np.all((off[isinf, 1] > y_lo) & (off[isinf, 1] < y_hi)):
            failures.append("%s: essential classes drawn outside the axes (y=%s, ylim=(%g, %g))"
                            % (tag, off[isinf, 1], y_lo, y_hi))
        # default range must contain all finite points
        if "xy_range" not in kw:
            if not (np.all((off[fin, 0] >= x_lo) & (off[fin, 0] <= x_hi))
                    and np.all((off[fin, 1] >= y_lo) & (off[fin, 1] <= y_hi))):
                failures.append("%s: finite points outside the axes" % tag)
    plt.close("all")
    plt.style.use("default")


check("default")
check("not-current axes", _not_current=True)
check("xy_range", xy_range=[9, 22, 9, 22])
check("lifetime", lifetime=True)
check("lifetime, not-current axes", lifetime=True, _not_current=True)
check("lifetime + xy_range", lifetime=True, xy_range=[9, 22, 9, 22])
check("lifetime, no legend", lifetime=True, legend=False, diagonal=False)

if failures:
    for f in failures:
        print("  -", f)
    print("FAIL")
    sys.exit(1)
print("PASS")
sys.exit(0)
