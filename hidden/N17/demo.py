"""C17 demo: mGH must not depend on how (or under which labelling) a graph is written down.

Run from inside the worktree:
    cd /tmp/wt_N17 && PYTHONPATH=/tmp/wt_N17 /venv/bin/python /tmp/ref_N17/demo.py
Prints PASS / exits 0 when the property holds, prints FAIL / exits 1 otherwise.
"""
import sys
import warnings

import numpy as np
import scipy.sparse as sps

import persim  # noqa: F401
from persim import gromov_hausdorff

gh = sys.modules["persim.gromov_hausdorff"]
print("using", gh.__file__)

problems = []


def check(ok, what):
    if not ok:
        problems.append(what)
        print("  violated:", what)


def quiet(func, *args):
    """Call func, return (result, number of 'disconnected' warnings)."""
    with warnings.catch_warnings(record=True) as caught:
        warnings.simplefilter("always")
        out = func(*args)
    return out, sum("disconnected" in str(w.message) for w in caught)


# The 6-cycle with a pendant vertex (connected, 7 vertices, diameter 4),
# written the documented way: only the upper triangle is filled.
n = 7
upper = np.zeros((n, n), dtype=int)
for u, v in [(0, 1), (1, 2), (2, 3), (3, 4), (4, 5), (0, 5), (2, 6)]:
    upper[u, v] = 1

perm = np.array([4, 0, 6, 2, 5, 1, 3])          # a vertex relabelling
relabelled = upper[np.ix_(perm, perm)]            # entries in both triangles, never mirrored
lower = upper.T.copy()                            # same graph, other triangle
symmetric = upper + upper.T

D_ref = gh.make_distance_matrix_from_adjacency_matrix(sps.csr_matrix(upper))

# 1. every representation of the same labelled graph gives the same metric space
for name, A, D_expected in [
    ("symmetric dense", symmetric, D_ref),
    ("symmetric lists", symmetric.tolist(), D_ref),
    ("upper lists", upper.tolist(), D_ref),
    ("lower dense", lower, D_ref),
    ("lower lists", lower.tolist(), D_ref),
    ("lower csr", sps.csr_matrix(lower), D_ref),
    ("relabelled csr", sps.csr_matrix(relabelled), D_ref[np.ix_(perm, perm)]),
    ("relabelled dense", relabelled, D_ref[np.ix_(perm, perm)]),
    ("relabelled lists", relabelled.tolist(), D_ref[np.ix_(perm, perm)]),
]:
    D, n_warn = quiet(gh.make_distance_matrix_from_adjacency_matrix, A)
    check(n_warn == 0, "%s: connected graph reported as disconnected" % name)
    check(D.shape == D_expected.shape and np.array_equal(D, D_expected),
          "%s: distance matrix differs from the one of the CSR upper-triangular form" % name)

# 2. a graph is at mGH distance 0 from any relabelling of itself, so a valid
#    bracket needs lb == 0; and identical labellings must give identical lower
#    bounds whatever the container.
np.random.seed(0)
(lb_sparse, ub_sparse), _ = quiet(gromov_hausdorff, sps.csr_matrix(upper), sps.csr_matrix(relabelled))
np.random.seed(0)
(lb_dense, ub_dense), w = quiet(gromov_hausdorff, sps.csr_matrix(upper), relabelled)
print("  csr vs relabelled csr  : lb=%s ub=%s" % (lb_sparse, ub_sparse))
print("  csr vs relabelled dense: lb=%s ub=%s (warnings: %d)" % (lb_dense, ub_dense, w))
check(lb_sparse == 0, "lower bound %s > 0 = mGH(G, relabelled G) for sparse input" % lb_sparse)
check(lb_dense == 0, "lower bound %s > 0 = mGH(G, relabelled G) for dense input" % lb_dense)
check(lb_dense == lb_sparse, "dense and sparse forms of one labelling give different lower bounds")

# 3. collection call over different write-ups of the same graph
np.random.seed(1)
(lbs, ubs), w = quiet(
    gromov_hausdorff,
    [upper.tolist(), lower, relabelled.tolist(), sps.csr_matrix(symmetric)])
print("  collection lower bounds:\n%s" % lbs)
check(w == 0, "collection of connected graphs raised %d 'disconnected' warnings" % w)
check(np.array_equal(lbs, lbs.T) and np.array_equal(ubs, ubs.T), "collection matrices not symmetric")
check(not lbs.any(), "collection: some lower bound exceeds the true distance 0")
check(np.all(lbs <= ubs), "collection: lb > ub")

if problems:
    print("FAIL (%d violations)" % len(problems))
    sys.exit(1)
print("PASS")
sys.exit(0)
