"""C02 demo: persim.wasserstein must equal the true min-sum matching cost.

Diagrams coming from integer-valued filtrations (grey levels of an image,
sample indices of a time series) are naturally stored in narrow / unsigned
integer arrays.  The reference below enumerates every partial matching in
Python floats; the library result has to agree.

Run from inside the worktree:
    cd /tmp/wt_Q02 && PYTHONPATH=/tmp/wt_Q02 /venv/bin/python /tmp/ref_Q02/demo.py
"""
import math
import sys
import warnings

import numpy as np

from persim import wasserstein


def brute_force(A, B):
    """min over all partial matchings, pure python floats"""
    A = [(float(b), float(d)) for b, d in A]
    B = [(float(b), float(d)) for b, d in B]

    def diag(p):
        return (p[1] - p[0]) / math.sqrt(2)

    def rec(i, free):
        if i == len(A):
            return sum(diag(B[j]) for j in free)
        best = diag(A[i]) + rec(i + 1, free)
        for j in free:
            c = math.hypot(A[i][0] - B[j][0], A[i][1] - B[j][1])
            best = min(best, c + rec(i + 1, free - {j}))
        return best

    return rec(0, frozenset(range(len(B))))


def cases():
    rng = np.random.default_rng(7)
    # hand-made: grey-level (uint8) diagrams whose optimal matching pairs
    # points that are 16 or more levels apart
    yield np.array([[10, 40]], dtype=np.uint8), np.array([[26, 56]], dtype=np.uint8)
    yield (
        np.array([[0, 200], [30, 90]], dtype=np.uint8),
        np.array([[20, 180], [100, 120], [5, 7]], dtype=np.uint8),
    )
    # sample-index diagrams stored as int16 / uint16 / int32
    yield (
        np.array([[100, 5000], [300, 800]], dtype=np.int16),
        np.array([[400, 5300], [250, 900]], dtype=np.int16),
    )
    yield (
        np.array([[1000, 60000]], dtype=np.uint16),
        np.array([[1300, 60400], [10, 20]], dtype=np.uint16),
    )
    yield (
        np.array([[0, 900000], [5, 10]], dtype=np.int32),
        np.array([[40000, 950000]], dtype=np.int32),
    )
    # random ones over several dtypes, including the ordinary float / int64
    for dt, hi in (
        (np.float64, 100),
        (np.int64, 100000),
        (np.uint8, 120),
        (np.int16, 15000),
        (np.uint16, 30000),
        (np.int32, 10 ** 6),
    ):
        for _ in range(12):
            m, n = rng.integers(0, 4, 2)
            out = []
            for k in (m, n):
                b = rng.integers(0, hi, k)
                p = rng.integers(0, hi, k)
                out.append(np.column_stack((b, b + p)).astype(dt))
            yield tuple(out)


def main():
    bad = 0
    total = 0
    for A, B in cases():
        total += 1
        want = brute_force(A, B)
        try:
            with warnings.catch_warnings():
                warnings.simplefilter("ignore")
                got = float(wasserstein(A, B))
        except Exception as e:  # a valid finite diagram must not raise
            got = e
        ok = isinstance(got, float) and abs(got - want) <= 1e-6 * max(1.0, abs(want))
        if not ok:
            bad += 1
            if bad <= 6:
                print("MISMATCH dtype=%s" % A.dtype)
                print("  dgm1 =", A.tolist())
                print("  dgm2 =", B.tolist())
                print("  wasserstein =", repr(got), " true min-sum cost =", want)
    print("%d / %d cases disagree with the exhaustive minimum" % (bad, total))
    if bad:
        print("FAIL")
        return 1
    print("PASS")
    return 0


if __name__ == "__main__":
    sys.exit(main())
