"""C04 demo: every pixel of a persistence image must equal the sum over the diagram's points of
weight(point) * (mass the kernel centred at the point puts on the pixel's square).

The reference masses are computed here independently of persim: the bivariate normal density is
integrated over each pixel with a tensor 24x24 Gauss-Legendre rule from numpy.  Run from inside the
worktree (PYTHONPATH=<worktree>) so that the worktree's copy of persim is the one imported.

Prints PASS / exits 0 when all configurations agree with the reference, FAIL / exits 1 otherwise.
"""
import sys

import numpy as np

import persim
from persim import PersistenceImager

TOL = 1e-6  # "numerical-integration accuracy": the shipped code is good to ~1e-9 on these inputs


def reference_image(dgm_bd, cov, birth_edges, pers_edges, weight_exponent=1.0, order=24):
    """Weighted kernel mass over each pixel, by direct quadrature of the Gaussian density."""
    nodes, wq = np.polynomial.legendre.leggauss(order)
    cov = np.asarray(cov, dtype=float)
    prec = np.linalg.inv(cov)
    norm = 1.0 / (2.0 * np.pi * np.sqrt(np.linalg.det(cov)))
    img = np.zeros((len(birth_edges) - 1, len(pers_edges) - 1))
    for b, d in dgm_bd:
        p = d - b                      # birth-death -> birth-persistence
        wt = p ** weight_exponent      # the 'persistence' weight
        for i in range(img.shape[0]):
            b0, b1 = birth_edges[i], birth_edges[i + 1]
            xb = 0.5 * (b1 - b0) * nodes + 0.5 * (b1 + b0) - b
            for j in range(img.shape[1]):
                p0, p1 = pers_edges[j], pers_edges[j + 1]
                xp = 0.5 * (p1 - p0) * nodes + 0.5 * (p1 + p0) - p
                X, Y = np.meshgrid(xb, xp, indexing="ij")
                q = prec[0, 0] * X * X + 2 * prec[0, 1] * X * Y + prec[1, 1] * Y * Y
                dens = norm * np.exp(-0.5 * q)
                mass = 0.25 * (b1 - b0) * (p1 - p0) * np.einsum("i,j,ij->", wq, wq, dens)
                img[i, j] += wt * mass
    return img


def check(label, cov, dgm):
    pimgr = PersistenceImager(birth_range=(0.0, 2.0), pers_range=(0.0, 2.0), pixel_size=0.25,
                              kernel_params={"sigma": cov})
    img = pimgr.transform(dgm, skew=True)
    nb, npx = pimgr.resolution
    birth_edges = pimgr.birth_range[0] + pimgr.pixel_size * np.arange(nb + 1)
    pers_edges = pimgr.pers_range[0] + pimgr.pixel_size * np.arange(npx + 1)
    ref = reference_image(dgm, cov, birth_edges, pers_edges)
    err = float(np.max(np.abs(img - ref)))
    ok = err < TOL
    print("  %-44s max |pixel - reference| = %.3e   %s" % (label, err, "ok" if ok else "MISMATCH"))
    return ok


def main():
    print("persim imported from", persim.__file__)
    dgm = np.array([[0.30, 1.10], [0.90, 1.40], [1.50, 2.60], [0.10, 0.35]])

    def cov(var_b, var_p, r):
        c = r * np.sqrt(var_b * var_p)
        return [[var_b, c], [c, var_p]]

    results = [
        check("isotropic, variance 0.2", cov(0.2, 0.2, 0.0), dgm),
        check("axis-aligned, variances (0.3, 0.1)", cov(0.3, 0.1, 0.0), dgm),
        check("correlated, r = +0.2", cov(0.2, 0.3, 0.2), dgm),
        check("correlated, r = +0.6", cov(0.2, 0.3, 0.6), dgm),
        check("correlated, r = +0.85", cov(0.2, 0.3, 0.85), dgm),
        check("correlated, r = -0.2", cov(0.2, 0.3, -0.2), dgm),
        check("correlated, r = -0.6", cov(0.2, 0.3, -0.6), dgm),
        check("correlated, r = -0.85", cov(0.2, 0.3, -0.85), dgm),
    ]
    if all(results):
        print("PASS")
        return 0
    print("FAIL")
    return 1


if __name__ == "__main__":
    sys.exit(main())
