"""C19 demo: persistent_entropy must not modify its arguments and must be repeatable.

Run from inside the worktree:  cd /tmp/wt_G19 && PYTHONPATH=/tmp/wt_G19 /venv/bin/python /tmp/ref_G19/demo.py
"""
import sys
import numpy as np
from persim import persistent_entropy as pe


def main():
    problems = []

    # two diagrams in a collection, the second one has an essential (infinite) bar
    dgms = [
        np.array([[0.0, 1.0], [0.0, 3.0], [2.0, 4.0]]),
        np.array([[2.0, 5.0], [3.0, 8.0], [0.0, np.inf]]),
    ]
    before = [d.copy() for d in dgms]
    raw = [d.tobytes() for d in dgms]

    # reference for the default options, taken on private copies
    ref_default = pe.persistent_entropy([d.copy() for d in before])

    # non-default option: keep the infinite bars, capped at 10
    first = pe.persistent_entropy(dgms, keep_inf=True, val_inf=10)
    for k, d in enumerate(dgms):
        if d.tobytes() != raw[k]:
            problems.append(
                "argument %d was modified by persistent_entropy(keep_inf=True, val_inf=10):\n%r\n ->\n%r"
                % (k, before[k], d)
            )

    # the same call again, with a different cap, must behave as on fresh data
    second = pe.persistent_entropy(dgms, keep_inf=True, val_inf=100)
    fresh = pe.persistent_entropy([d.copy() for d in before], keep_inf=True, val_inf=100)
    if not np.array_equal(second, fresh):
        problems.append("second call (val_inf=100) differs from a fresh call: %r vs %r" % (second, fresh))

    # interleaved call with default options must not depend on the earlier calls
    after_default = pe.persistent_entropy(dgms)
    if not np.array_equal(after_default, ref_default):
        problems.append(
            "default call after a keep_inf call changed: %r vs %r" % (after_default, ref_default)
        )

    # single-array form
    single = before[1].copy()
    pe.persistent_entropy(single, keep_inf=True, val_inf=10)
    if single.tobytes() != raw[1]:
        problems.append("single ndarray argument was modified")

    if problems:
        print("FAIL")
        for p in problems:
            print(" -", p)
        return 1
    print("PASS", first)
    return 0


if __name__ == "__main__":
    sys.exit(main())
