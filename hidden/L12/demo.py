"""C12 demo: the imager's geometry stays self-consistent under any configuration history.

Run from inside the worktree:
    cd /tmp/wt_L12 && PYTHONPATH=/tmp/wt_L12 /venv/bin/python /tmp/ref_L12/demo.py
Prints PASS and exits 0 when the property holds on every scenario, prints FAIL and exits 1 otherwise.
"""
import sys
import warnings

import matplotlib

matplotlib.use("Agg")
warnings.simplefilter("ignore")

import numpy as np

from persim import PersistenceImager

TOL = 1e-9
failures = []


def check(tag, im, asked_birth, asked_pers, points=None):
    """asked_*: the interval the last operation asked to be covered on that axis."""
    px = im.pixel_size
    res = im.resolution
    b, p = im.birth_range, im.pers_range
    bad = []

    # resolution * pixel size == covered width / height
    if abs(res[0] * px - im.width) > TOL or abs(res[1] * px - im.height) > TOL:
        bad.append("resolution*pixel_size != width/height")
    if abs((b[1] - b[0]) - im.width) > TOL or abs((p[1] - p[0]) - im.height) > TOL:
        bad.append("ranges do not span width/height")

    # pixels are squares of exactly the configured size, resolution+1 boundaries per axis
    for pts, n, rng in ((im._bpnts, res[0], b), (im._ppnts, res[1], p)):
        if len(pts) != n + 1:
            bad.append("mesh has %d boundaries for %d pixels" % (len(pts), n))
        elif np.abs(np.diff(pts) - px).max() > TOL or abs(pts[0] - rng[0]) > TOL or abs(pts[-1] - rng[1]) > TOL:
            bad.append("mesh pixels are not squares of the configured size on the range")

    # every image has the reported resolution
    probe = np.array([[(b[0] + b[1]) / 2, (p[0] + p[1]) / 2]])
    if im.transform(probe, skew=False).shape != tuple(res):
        bad.append("image shape differs from resolution")

    # covered ranges contain what was asked for and exceed it by no more than one pixel
    for name, rng, asked in (("birth", b, asked_birth), ("pers", p, asked_pers)):
        if asked is None:
            continue
        if rng[0] > asked[0] + TOL or rng[1] < asked[1] - TOL:
            bad.append("%s range %r does not contain %r" % (name, tuple(map(float, rng)), tuple(map(float, asked))))
        if (rng[1] - rng[0]) - (asked[1] - asked[0]) > px + TOL:
            bad.append("%s range %r exceeds %r by more than a pixel" % (name, tuple(map(float, rng)), tuple(map(float, asked))))

    # every fitted point is inside the covered rectangle
    if points is not None:
        inside = (
            (points[:, 0] >= b[0] - TOL) & (points[:, 0] <= b[1] + TOL)
            & (points[:, 1] >= p[0] - TOL) & (points[:, 1] <= p[1] + TOL)
        )
        if not inside.all():
            bad.append("%d fitted point(s) outside the covered ranges" % int((~inside).sum()))

    for msg in bad:
        failures.append("%s: %s" % (tag, msg))


def bp(dgms, skew=True):
    pts = np.vstack([np.asarray(d, dtype=float) for d in dgms])
    if skew:
        pts[:, 1] = pts[:, 1] - pts[:, 0]
    return pts


def fit_and_check(tag, im, dgms, skew=True):
    im.fit(dgms, skew=skew)
    pts = bp(dgms, skew)
    lo, hi = pts.min(axis=0), pts.max(axis=0)
    check(tag, im, (lo[0], hi[0]), (lo[1], hi[1]), points=pts)


# --- construction and setters on inexact quotients
im = PersistenceImager(birth_range=(0.0, 0.3), pers_range=(0.0, 0.7), pixel_size=0.1)
check("ctor 0.3/0.1, 0.7/0.1", im, (0.0, 0.3), (0.0, 0.7))
im = PersistenceImager(birth_range=(0.1, 1.0), pers_range=(-0.2, 0.8), pixel_size=1 / 3)
check("ctor 1/3", im, (0.1, 1.0), (-0.2, 0.8))
before = (im.birth_range, im.pers_range)
im.pixel_size = 0.07
check("pixel_size 0.07", im, before[0], before[1])
im.birth_range = (0.25, 0.95)
check("birth_range setter", im, (0.25, 0.95), None)
im.pers_range = (0.0, 0.3)
check("pers_range setter", im, None, (0.0, 0.3))
before = (im.birth_range, im.pers_range)
im.pixel_size = 0.1
check("pixel_size 0.1", im, before[0], before[1])

# --- fits: one diagram, then collections whose extremes sit in different diagrams
d_wide = np.array([[0.5, 1.0], [2.0, 3.5]])        # births 0.5..2.0, persistence 0.5..1.5
d_low = np.array([[0.1, 0.9], [1.0, 1.3]])         # births 0.1..1.0, persistence 0.3..0.8  (lower, not higher)
d_high = np.array([[1.2, 1.9], [2.6, 5.0]])        # births 1.2..2.6, persistence 0.7..2.4  (higher, not lower)
d_ints = np.array([[0, 1], [1, 1], [3, 5]])
d_inner = np.array([[1.0, 1.9], [1.5, 2.2], [1.2, 2.3]])

im = PersistenceImager(pixel_size=0.3)
fit_and_check("fit single", im, [d_wide])
fit_and_check("fit [wide, low]", im, [d_wide, d_low])
fit_and_check("fit [low, wide]", im, [d_low, d_wide])
fit_and_check("fit [wide, high]", im, [d_wide, d_high])
fit_and_check("fit [ints, low, high]", im, [d_ints, d_low, d_high])
fit_and_check("fit [wide, inner]", im, [d_wide, d_inner])
fit_and_check("fit [inner, low, high] skew=False", im, [d_inner, d_low, d_high], skew=False)
before = (im.birth_range, im.pers_range)
im.pixel_size = 0.1
check("pixel_size after fit", im, before[0], before[1])
fit_and_check("refit after pixel change", im, [d_high, d_low])

# --- a single narrow-kernel point lands in the pixel that contains it
im = PersistenceImager(pixel_size=0.25, kernel_params={"sigma": 1e-6})
im.fit([d_wide, d_low, d_high])
for pt in bp([d_wide]):
    img = im.transform(np.array([pt]), skew=False)
    i, j = np.unravel_index(np.argmax(img), img.shape)
    want = (
        int(np.floor((pt[0] - im.birth_range[0]) / im.pixel_size)),
        int(np.floor((pt[1] - im.pers_range[0]) / im.pixel_size)),
    )
    if img.max() <= 0 or (i, j) != want:
        failures.append("narrow kernel: point %r lands in pixel %r, expected %r" % (tuple(pt), (int(i), int(j)), want))

if failures:
    for f in failures:
        print("  violation -", f)
    print("FAIL")
    sys.exit(1)
print("PASS")
sys.exit(0)
