"""Demo for property C01 (bottleneck distance is the true min-max matching cost).

Run from inside the tree under test so that its persim is the one imported:
    cd /tmp/wt_N01 && PYTHONPATH=/tmp/wt_N01 /venv/bin/python /tmp/ref_N01/demo.py

Points with an infinite death time must be dropped (with a warning) and must
not influence the value, so a diagram that has *only* such points counts as an
empty diagram.  The demo compares persim.bottleneck with a brute-force min-max
over all matchings of the finite points, on a handful of diagrams, among them
pairs in which both diagrams consist of essential (infinite) classes only.
Prints PASS and exits 0 if every value agrees, prints FAIL and exits 1 if not.
"""
import itertools
import sys
import warnings

import numpy as np

import persim
from persim import bottleneck

inf = np.inf


def brute_force(dgm1, dgm2):
    """min over all pairings (point-point or point-diagonal) of the max cost."""
    A = [p for p in np.asarray(dgm1, dtype=float).reshape(-1, 2) if np.isfinite(p[1])]
    B = [p for p in np.asarray(dgm2, dtype=float).reshape(-1, 2) if np.isfinite(p[1])]
    m, n = len(A), len(B)
    if m + n == 0:
        return 0.0
    # A-points then n diagonal slots on the left; B-points then m diagonal slots on the right
    cost = np.zeros((m + n, m + n))
    for i, a in enumerate(A):
        for j, b in enumerate(B):
            cost[i, j] = max(abs(a[0] - b[0]), abs(a[1] - b[1]))
        cost[i, n:] = 0.5 * (a[1] - a[0])
    for j, b in enumerate(B):
        cost[m:, j] = 0.5 * (b[1] - b[0])
    rows = range(m + n)
    return min(max(cost[i, p[i]] for i in rows) for p in itertools.permutations(rows))


CASES = [
    # ordinary diagrams
    ([[0.5, 1.0], [0.6, 1.1]], [[0.5, 1.1]]),
    ([[0, 4], [1, 2]], [[0, 3], [5, 9], [2, 2]]),
    # some infinite classes next to finite ones
    ([[0, 1.5], [0, inf]], [[0, 2.0], [0, inf]]),
    # only infinite classes on one side
    ([[0, inf]], [[1, 2], [0, 5]]),
    ([[1, 2]], [[0, inf], [3, inf]]),
    # only infinite classes on both sides: both count as empty, distance 0
    ([[0, inf]], [[0, inf]]),
    ([[0, inf], [2, inf]], [[1, inf]]),
]

print("persim imported from", persim.__file__)
failures = 0
for dgm1, dgm2 in CASES:
    a, b = np.array(dgm1, dtype=float), np.array(dgm2, dtype=float)
    want = brute_force(a, b)
    try:
        with warnings.catch_warnings():
            warnings.simplefilter("ignore")
            got = bottleneck(a, b)
            got_m, _ = bottleneck(a, b, matching=True)
        ok = bool(got == want and got_m == want)
    except Exception as exc:  # a crash is a wrong answer too
        got, ok = "raised {!r}".format(exc), False
    print("{}  dgm1={} dgm2={}  expected {}  got {}".format("ok " if ok else "BAD", dgm1, dgm2, want, got))
    failures += not ok

if failures:
    print("FAIL")
    sys.exit(1)
print("PASS")
sys.exit(0)
