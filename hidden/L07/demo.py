"""
C07 demo: bottleneck must scale linearly when both diagrams are rescaled and
must reduce to max persistence / 2 against the empty diagram -- at ALL scales,
including diagrams whose coordinates are tiny or whose costs nearly tie.

Run from inside the worktree:
    cd /tmp/wt_L07 && PYTHONPATH=/tmp/wt_L07 /venv/bin/python /tmp/ref_L07/demo.py
"""
import sys
import warnings

import numpy as np

warnings.simplefilter("ignore")
import persim
from persim import bottleneck

print("persim imported from", persim.__file__)

rng = np.random.default_rng(20240707)
failures = []


def check(name, got, want, rel=1e-9):
    ok = abs(got - want) <= rel * abs(want)
    print("  {:<58s} got {:<24s} want {:<24s} {}".format(name, repr(float(got)), repr(float(want)), "ok" if ok else "WRONG"))
    if not ok:
        failures.append(name)


def diagram(n):
    b = rng.random(n)
    return np.column_stack((b, b + 0.05 + rng.random(n)))


X, Y = diagram(9), diagram(6)
base = bottleneck(X, Y)
half_pers = 0.5 * (X[:, 1] - X[:, 0]).max()

print("1. rescaling both diagrams (powers of two, so the arithmetic is exact)")
for e in (0, -10, -20, -30, -40):
    s = 2.0 ** e
    check("bottleneck(s*X, s*Y) / s   with s = 2**{}".format(e), bottleneck(s * X, s * Y) / s, base)
    check("bottleneck(Y*s, X*s) / s   with s = 2**{}".format(e), bottleneck(s * Y, s * X) / s, base)

print("2. against the empty diagram: max persistence / 2")
for e in (0, -30, -40):
    s = 2.0 ** e
    check("bottleneck(s*X, empty) / s with s = 2**{}".format(e), bottleneck(s * X, np.zeros((0, 2))) / s, half_pers)

print("3. two bars whose lengths nearly tie, against the empty diagram")
near = np.array([[0.0, 2.0], [0.0, 2.000001]])
check("bottleneck([[0,2],[0,2.000001]], empty)", bottleneck(near, []), 0.5 * 2.000001, rel=1e-12)

print("4. a hundred points against the empty diagram, ordinary scale")
big = diagram(100)
check("bottleneck(big, empty)", bottleneck(big, []), 0.5 * (big[:, 1] - big[:, 0]).max(), rel=1e-12)

if failures:
    print("FAIL ({} checks violated)".format(len(failures)))
    sys.exit(1)
print("PASS")
sys.exit(0)
