"""
Demo for C14 (heat-kernel distance is a pseudo-metric equal to
sqrt(k(F,F)+k(G,G)-2k(F,G)) for the multi-scale kernel).

Run from inside the worktree so that its copy of persim is imported:
    cd /tmp/wt_K14 && PYTHONPATH=/tmp/wt_K14 /venv/bin/python /tmp/ref_K14/demo.py

Diagrams given with integer coordinates (filtration indices, pixel values,
hand-written examples such as np.array([[0, 3], [1, 5]])) must give the same
distance as the same diagrams written with floats.
"""
import sys
import warnings

import numpy as np

warnings.simplefilter("ignore")
from persim import heat, wasserstein  # noqa: E402


def ref_kernel(F, G, sigma):
    """Multi-scale kernel of Reininghaus et al., written out directly."""
    total = 0.0
    for p in np.asarray(F, dtype=float):
        for q in np.asarray(G, dtype=float):
            qc = q[::-1]
            total += np.exp(-np.sum((p - q) ** 2) / (8 * sigma))
            total -= np.exp(-np.sum((p - qc) ** 2) / (8 * sigma))
    return total / (8 * np.pi * sigma)


def ref_heat(F, G, sigma):
    sq = ref_kernel(F, F, sigma) + ref_kernel(G, G, sigma) - 2 * ref_kernel(F, G, sigma)
    return np.sqrt(max(sq, 0.0))


failures = []


def check(name, ok, detail=""):
    print("  [%s] %s %s" % ("ok" if ok else "BAD", name, detail))
    if not ok:
        failures.append(name)


F = np.array([[0, 3], [1, 5]])              # integer dtype
G = np.array([[0, 4], [2, 2], [1, 7]])      # integer dtype, one diagonal point
H = np.array([[0, 6]])
print("dtypes:", F.dtype, G.dtype, H.dtype)

for sigma in (0.4, 1.0, 2.5):
    print("sigma =", sigma)
    d_fg = heat(F, G, sigma)
    d_gf = heat(G, F, sigma)
    expected = ref_heat(F, G, sigma)
    check("formula sqrt(k(F,F)+k(G,G)-2k(F,G))", np.isclose(d_fg, expected, rtol=1e-9, atol=1e-12),
          "got %.12g expected %.12g" % (d_fg, expected))
    check("symmetry d(F,G) == d(G,F)", np.isclose(d_fg, d_gf, rtol=1e-9, atol=1e-12),
          "%.12g vs %.12g" % (d_fg, d_gf))
    check("same diagram as floats gives same distance",
          np.isclose(d_fg, heat(F.astype(float), G.astype(float), sigma), rtol=1e-9, atol=1e-12))
    d_small = heat(np.array([[0, 3]]), H, sigma)
    check("distinct single-point integer diagrams", np.isclose(d_small, ref_heat([[0, 3]], H, sigma), rtol=1e-9),
          "got %.12g expected %.12g" % (d_small, ref_heat([[0, 3]], H, sigma)))
    # stability bound w.r.t. 1-Wasserstein (persim's wasserstein uses the Euclidean ground metric)
    bound = wasserstein(F.astype(float), G.astype(float)) / (4 * sigma * np.sqrt(np.pi))
    check("stability d <= W1 / (4 sigma sqrt(pi))", d_fg <= bound * (1 + 1e-9),
          "d=%.6g bound=%.6g" % (d_fg, bound))
    # triangle inequality through H
    check("triangle d(F,G) <= d(F,H) + d(H,G)",
          d_fg <= heat(F, H, sigma) + heat(H, G, sigma) + 1e-12)

if failures:
    print("FAIL")
    sys.exit(1)
print("PASS")
sys.exit(0)
