"""C18 demo: fit + transform == fit_transform, transform is repeatable, a refit on the
same diagrams learns the same thing -- checked on ordinary float64 birth-death
diagrams (what ripser returns), in a collection of two diagrams of unequal size.

Run from the worktree:
    cd /tmp/wt_K18 && PYTHONPATH=/tmp/wt_K18 /venv/bin/python /tmp/ref_K18/demo.py
"""
import sys

import matplotlib

matplotlib.use("Agg")

import numpy as np

from persim import PersistenceImager


def state(imgr):
    return (
        tuple(float(v) for v in imgr.birth_range),
        tuple(float(v) for v in imgr.pers_range),
        tuple(int(v) for v in imgr.resolution),
    )


def same_images(a, b):
    return len(a) == len(b) and all(
        x.shape == y.shape and np.array_equal(x, y) for x, y in zip(a, b)
    )


def main():
    # float64 diagrams in birth-death coordinates
    dgms = [
        np.array([[0.5, 0.8], [0.7, 2.2], [2.5, 4.0]]),
        np.array([[0.1, 0.2], [3.1, 3.3], [1.6, 2.9], [0.2, 2.6]]),
    ]
    pristine = [d.copy() for d in dgms]
    problems = []

    # reference: the combined call
    ref = PersistenceImager(pixel_size=0.5)
    ref_imgs = ref.fit_transform(dgms)
    ref_state = state(ref)

    # the same diagrams through fit, then transform, on a second imager
    imgr = PersistenceImager(pixel_size=0.5)
    imgr.fit(dgms)
    if state(imgr) != ref_state:
        problems.append(
            "fit learnt %r, fit_transform learnt %r" % (state(imgr), ref_state)
        )
    first = imgr.transform(dgms)
    if not same_images(first, ref_imgs):
        problems.append("fit(d); transform(d) differs from fit_transform(d)")

    # transform is repeatable and leaves the fitted state alone
    second = imgr.transform(dgms)
    if not same_images(first, second):
        problems.append("transform(d) twice gives two different answers")
    if state(imgr) != ref_state:
        problems.append("transform changed the fitted state")

    # a refit on the very same diagrams learns the very same thing
    imgr.fit(dgms)
    if state(imgr) != ref_state:
        problems.append(
            "refit on the same diagrams learnt %r instead of %r"
            % (state(imgr), ref_state)
        )

    # single diagram, same story
    single = PersistenceImager(pixel_size=0.25)
    one = np.array([[0.0, 1.0], [0.25, 2.0], [1.0, 1.5]])
    img_a = single.fit_transform(one)
    other = PersistenceImager(pixel_size=0.25)
    other.fit(one)
    img_b = other.transform(one)
    if not (state(single) == state(other) and np.array_equal(img_a, img_b)):
        problems.append("single diagram: fit+transform differs from fit_transform")

    # none of this is allowed to touch the caller's diagrams
    if not all(np.array_equal(d, p) for d, p in zip(dgms, pristine)):
        problems.append("the caller's diagrams were modified")

    if problems:
        for p in problems:
            print("  -", p)
        print("FAIL")
        return 1
    print("PASS")
    return 0


if __name__ == "__main__":
    sys.exit(main())
