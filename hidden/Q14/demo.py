"""Demo for property C14 (heat-kernel distance is a real pseudo-metric).

Run from the worktree so that the worktree copy of persim is imported:
  cd /tmp/wt_Q14 && PYTHONPATH=/tmp/wt_Q14 /venv/bin/python /tmp/ref_Q14/demo.py

Prints PASS / exits 0 if heat() is a finite, non-negative real number that is
(numerically) zero between a diagram and every reordering of itself, and
symmetric; prints FAIL / exits 1 otherwise.
"""
import itertools
import sys
import warnings

import numpy as np

warnings.simplefilter("ignore")

from persim import heat  # noqa: E402

F = np.array([[0.0, 1.0], [0.3, 1.7], [0.2, 0.9], [1.1, 2.4]])
TOL = 1e-6  # sqrt of rounding noise of size ~1e-16 is ~1e-8

failures = []


def check(label, value):
    ok = np.isreal(value) and np.isfinite(value) and value >= 0
    if not ok:
        failures.append("%s: heat = %r is not a finite non-negative real" % (label, value))
    return ok


# 1. a diagram against every reordering of itself, several scales
for sigma in (0.1, 0.4, 1.0):
    for perm in itertools.permutations(range(len(F))):
        G = F[list(perm)]
        d = heat(F, G, sigma)
        if check("sigma=%g perm=%s" % (sigma, perm), d) and d > TOL:
            failures.append("sigma=%g perm=%s: heat = %r, expected 0" % (sigma, perm, d))

# 2. nearly identical diagrams, both argument orders
G = F + 1e-9
d_fg = heat(F, G)
d_gf = heat(G, F)
check("heat(F, F+1e-9)", d_fg)
check("heat(F+1e-9, F)", d_gf)
if np.isfinite(d_fg) and np.isfinite(d_gf) and abs(d_fg - d_gf) > TOL:
    failures.append("not symmetric on nearly identical diagrams: %r vs %r" % (d_fg, d_gf))

# 3. sanity on clearly different diagrams (holds in every variant)
H = np.array([[0.0, 2.0], [0.5, 0.6]])
d = heat(F, H)
check("heat(F, H)", d)
if not d > 0.1:
    failures.append("heat(F, H) = %r, expected a clearly positive number" % d)

if failures:
    print("FAIL")
    for msg in failures[:8]:
        print("  ", msg)
    print("  (%d violations in total)" % len(failures))
    sys.exit(1)
print("PASS")
sys.exit(0)
