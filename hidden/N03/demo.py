"""Property C03 demo: the exact landscape equals the k-th largest tent.

Run from inside the worktree, e.g.
    cd /tmp/wt_N03 && PYTHONPATH=/tmp/wt_N03 /venv/bin/python /tmp/ref_N03/demo.py

For a handful of finite diagrams (all bars of positive length) the critical
points returned by PersLandscapeExact are interpolated and compared, at every
depth k = 1 .. n+1 and on a grid of t containing every possible breakpoint,
with the definition

    lambda_k(t) = k-th largest value of max(0, min(t - b, d - t)) over the bars.

Prints PASS / exits 0 when every diagram agrees, prints FAIL / exits 1 otherwise.
"""
import sys
import warnings

import numpy as np

warnings.simplefilter("ignore")
from persim.landscapes import PersLandscapeExact  # noqa: E402


def tent_landscape(bars, k, t):
    vals = sorted((max(0.0, min(t - b, d - t)) for b, d in bars), reverse=True)
    return vals[k - 1] if k <= len(vals) else 0.0


def evaluate(points, t):
    if not points:
        return 0.0
    xs = [float(p[0]) for p in points]
    ys = [float(p[1]) for p in points]
    if t < xs[0] or t > xs[-1]:
        return 0.0
    return float(np.interp(t, xs, ys))


def grid(bars):
    ts = set()
    for b, d in bars:
        ts.update([b, d])
        for b2, d2 in bars:
            ts.add((b2 + d) / 2.0)
    ts = sorted(ts)
    mids = [(u + v) / 2.0 for u, v in zip(ts, ts[1:])]
    return ts + mids + [ts[0] - 1.0, ts[-1] + 1.0]


def violations(bars, dtype):
    dgm = np.array(bars, dtype=dtype)
    try:
        crit = PersLandscapeExact(dgms=[dgm], hom_deg=0).critical_pairs
    except Exception as exc:  # the landscape could not even be computed
        return [f"raised {type(exc).__name__}: {exc}"]
    out = []
    fbars = [(float(b), float(d)) for b, d in bars]
    for k in range(1, len(bars) + 2):
        pts = crit[k - 1] if k <= len(crit) else []
        xs = [p[0] for p in pts]
        if any(x1 > x2 for x1, x2 in zip(xs, xs[1:])):
            out.append(f"depth {k}: critical points not ordered by abscissa")
        for t in grid(fbars):
            got, want = evaluate(pts, t), tent_landscape(fbars, k, t)
            if abs(got - want) > 1e-9:
                out.append(f"depth {k}, t={t}: landscape gives {got}, definition gives {want}")
                break
    if len(crit) > len(bars):
        out.append(f"{len(crit)} depths returned for {len(bars)} bars")
    return out


CASES = [
    # the textbook example pinned by the suite, in scrambled order
    ("textbook, scrambled", [[6, 7], [2, 8], [5, 9], [3, 4], [1, 5]], float),
    # a bar present twice (what the suite covers), dominated small bar after it
    ("bar twice + nested bar", [[0, 4], [0, 4], [1, 2]], int),
    # a bar present three times followed by a nested bar
    ("bar three times + nested bar", [[0, 4], [0, 4], [0, 4], [1, 2]], int),
    ("same, negative floats, other order", [[-2.5, -1.5], [-3.5, 0.5], [-3.5, 0.5], [-3.5, 0.5]], float),
    # a bar present four times followed by two nested bars
    ("bar four times + two nested bars", [[0, 8], [0, 8], [1, 3], [0, 8], [4, 5], [0, 8]], int),
    # three copies of the second bar of the sweep
    ("three copies below a taller bar", [[0, 10], [1, 5], [1, 5], [1, 5], [2, 3]], float),
    # nothing but three copies of one bar
    ("bar three times, nothing else", [[0, 1], [0, 1], [0, 1]], float),
]


def main():
    bad = 0
    for name, bars, dtype in CASES:
        found = violations(bars, dtype)
        if found:
            bad += 1
            print(f"[violated] {name}: {bars}")
            for line in found[:3]:
                print("     ", line)
        else:
            print(f"[ok]       {name}")
    if bad:
        print("FAIL")
        return 1
    print("PASS")
    return 0


if __name__ == "__main__":
    sys.exit(main())
