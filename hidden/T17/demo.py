"""Demo for property C17 (mGH accepts every graph representation and degrades gracefully).

Run from inside the worktree so that the worktree's persim is imported:
    cd /tmp/wt_T17 && PYTHONPATH=/tmp/wt_T17 /venv/bin/python /tmp/ref_T17/demo.py

Only the public entry point persim.gromov_hausdorff is used. Checked:
  * a graph and a relabelled copy of it are at distance 0, so the returned bracket
    must contain 0 (lb == 0, lb <= ub) - for nested lists, dense arrays and CSR
    matrices, with upper-triangular and with symmetric adjacency, lower bounds
    identical across the formats;
  * for small non-isomorphic pairs the bracket must contain the exact distance
    (computed here by brute force over all mappings);
  * a collection call returns symmetric matrices with zero diagonal whose entries
    agree with the lower bounds of the pair calls and bracket the exact distances;
  * a disconnected graph is replaced, with a warning, by its largest component.
Prints PASS and exits 0 if all of it holds, prints FAIL and exits 1 otherwise.
"""
import itertools
import sys
import warnings

import numpy as np
import scipy.sparse as sps

from persim import gromov_hausdorff

failures = []


def check(condition, message):
    if not condition:
        failures.append(message)
        print("  violation:", message)


def formats(A):
    """The same graph as nested lists / dense array / CSR, upper-triangular and symmetric."""
    A = np.asarray(A)
    upper = np.triu(A + A.T, 1).clip(0, 1)
    symmetric = upper + upper.T
    return {
        "lists/upper": upper.tolist(),
        "dense/upper": upper.copy(),
        "csr/upper": sps.csr_matrix(upper),
        "lists/symmetric": symmetric.tolist(),
        "dense/symmetric": symmetric.copy(),
        "csr/symmetric": sps.csr_matrix(symmetric),
    }


def relabel(A, perm):
    A = np.asarray(A)
    S = A + A.T
    return S[np.ix_(perm, perm)]


def distance_matrix(A):
    """Plain BFS-free Floyd-Warshall on a tiny connected graph (independent of persim)."""
    A = np.asarray(A)
    n = len(A)
    D = np.where((A + A.T) > 0, 1.0, np.inf)
    np.fill_diagonal(D, 0)
    for k in range(n):
        D = np.minimum(D, D[:, [k]] + D[[k], :])
    assert np.isfinite(D).all()
    return D.astype(int)


def min_distortion(DX, DY):
    n, m = len(DX), len(DY)
    maps = np.array(list(itertools.product(range(m), repeat=n)))          # all f: X -> Y
    images = DY[maps[:, :, None], maps[:, None, :]]                         # dY(f(x), f(x'))
    return int(np.abs(images - DX[None]).max(axis=(1, 2)).min())


def exact_mgh(A, B):
    DX, DY = distance_matrix(A), distance_matrix(B)
    return 0.5 * max(min_distortion(DX, DY), min_distortion(DY, DX))


# ---------------------------------------------------------------- 1. relabelled copies
G1 = [[0, 1, 0, 0, 1, 0], [0, 0, 1, 0, 0, 0], [0, 0, 0, 0, 1, 0],
      [0, 0, 0, 0, 1, 0], [0, 0, 0, 0, 0, 1], [0, 0, 0, 0, 0, 0]]
G2 = [[0, 1, 1, 0, 0, 1], [0, 0, 1, 0, 0, 0], [0, 0, 0, 0, 0, 1],
      [0, 0, 0, 0, 0, 1], [0, 0, 0, 0, 0, 1], [0, 0, 0, 0, 0, 0]]
G3 = [[0, 1, 1, 1, 0, 0, 1], [0, 0, 1, 0, 0, 0, 1], [0, 0, 0, 0, 0, 0, 0], [0, 0, 0, 0, 0, 0, 1],
      [0, 0, 0, 0, 0, 0, 1], [0, 0, 0, 0, 0, 0, 1], [0, 0, 0, 0, 0, 0, 0]]
G4 = [[0, 1, 0, 0, 0], [0, 0, 1, 0, 0], [0, 0, 0, 1, 0], [0, 0, 0, 0, 1], [0, 0, 0, 0, 0]]   # path
G5 = [[0, 1, 1, 1], [0, 0, 1, 1], [0, 0, 0, 1], [0, 0, 0, 0]]                                # clique
RELABELLED = [
    ("G1", G1, [1, 0, 5, 4, 3, 2]),
    ("G2", G2, [4, 0, 2, 3, 1, 5]),
    ("G3", G3, [6, 4, 1, 3, 5, 2, 0]),
    ("G4", G4, [2, 0, 4, 1, 3]),
    ("G5", G5, [3, 1, 0, 2]),
]
print("1. a graph against a relabelled copy of itself (distance 0)")
for name, G, perm in RELABELLED:
    H = relabel(G, perm)
    lbs_seen = {}
    for seed, ((fG, AG), (fH, AH)) in enumerate(zip(formats(G).items(), reversed(list(formats(H).items())))):
        np.random.seed(seed)
        lb, ub = gromov_hausdorff(AG, AH)
        lbs_seen[fG + " vs " + fH] = lb
        check(lb <= ub, "%s %s vs relabelled %s: lb %r > ub %r" % (name, fG, fH, lb, ub))
        check(lb == 0, "%s %s vs relabelled %s: lower bound %r of a zero distance" % (name, fG, fH, lb))
    check(len(set(lbs_seen.values())) == 1, "%s: lower bounds differ across formats: %r" % (name, lbs_seen))

# ---------------------------------------------------------------- 2. exact distance bracketed
P1 = [[0, 1, 1, 0, 0], [0, 0, 1, 0, 1], [0, 0, 0, 0, 0], [0, 0, 0, 0, 1], [0, 0, 0, 0, 0]]
Q1 = [[0, 1, 1, 0, 1, 0, 0], [0, 0, 0, 1, 0, 0, 1], [0, 0, 0, 0, 0, 0, 1], [0, 0, 0, 0, 0, 0, 0],
      [0, 0, 0, 0, 0, 0, 0], [0, 0, 0, 0, 0, 0, 1], [0, 0, 0, 0, 0, 0, 0]]
P2 = [[0, 1, 0, 1, 0], [0, 0, 0, 0, 1], [0, 0, 0, 0, 1], [0, 0, 0, 0, 1], [0, 0, 0, 0, 0]]
Q2 = [[0, 1, 0, 0, 1, 0], [0, 0, 1, 0, 0, 0], [0, 0, 0, 0, 1, 0],
      [0, 0, 0, 0, 1, 0], [0, 0, 0, 0, 0, 1], [0, 0, 0, 0, 0, 0]]
PAIRS = [("P1,Q1", P1, Q1), ("P2,Q2", P2, Q2), ("G4,G5", G4, G5), ("G1,G2", G1, G2), ("G5,P1", G5, P1)]
print("2. brackets of the exact distance of small pairs")
pair_lbs = {}
for name, A, B in PAIRS:
    exact = exact_mgh(A, B)
    for seed, ((fA, XA), (fB, XB)) in enumerate(zip(formats(A).items(), reversed(list(formats(B).items())))):
        np.random.seed(100 + seed)
        lb, ub = gromov_hausdorff(XA, XB)
        pair_lbs.setdefault(name, set()).add(lb)
        check(lb <= exact <= ub, "%s (%s, %s): bracket [%r, %r] misses the exact distance %r"
              % (name, fA, fB, lb, ub, exact))
    check(len(pair_lbs[name]) == 1, "%s: lower bounds differ across formats: %r" % (name, pair_lbs[name]))

# ---------------------------------------------------------------- 3. collection call
print("3. collection call")
graphs = [G1, relabel(G1, [1, 0, 5, 4, 3, 2]).tolist(), sps.csr_matrix(np.array(P1)), np.array(Q1), G5]
plain = [G1, relabel(G1, [1, 0, 5, 4, 3, 2]), P1, Q1, G5]
np.random.seed(7)
lbs, ubs = gromov_hausdorff(graphs)
check(lbs.shape == (5, 5) and ubs.shape == (5, 5), "collection: wrong shapes")
check(np.array_equal(lbs, lbs.T) and np.array_equal(ubs, ubs.T), "collection: matrices not symmetric")
check(not lbs.diagonal().any() and not ubs.diagonal().any(), "collection: non-zero diagonal")
for i in range(5):
    for j in range(i + 1, 5):
        exact = exact_mgh(plain[i], plain[j])
        check(lbs[i, j] <= exact <= ubs[i, j], "collection entry (%d, %d): bracket [%r, %r] misses %r"
              % (i, j, lbs[i, j], ubs[i, j], exact))

# ---------------------------------------------------------------- 4. disconnected graph
print("4. disconnected graph")
D = np.zeros((9, 9), dtype=int)
D[:6, :6] = np.array(G1)
D[6, 7] = D[7, 8] = 1                                    # G1 plus a separate 3-path
for fmt, XD in formats(D).items():
    with warnings.catch_warnings(record=True) as caught:
        warnings.simplefilter("always")
        np.random.seed(3)
        try:
            lb, ub = gromov_hausdorff(XD, G1)
        except Exception as exc:  # noqa
            check(False, "disconnected %s: raised %r" % (fmt, exc))
            continue
    check(any("largest connected component" in str(w.message) for w in caught),
          "disconnected %s: no warning" % fmt)
    check(lb == 0 and lb <= ub, "disconnected %s: bracket [%r, %r] of G1 against its own component" % (fmt, lb, ub))

if failures:
    print("FAIL (%d violations)" % len(failures))
    sys.exit(1)
print("PASS")
sys.exit(0)
