"""C16 demo: a list of diagrams yields the vector of individual entropies,
with infinite bars dropped (keep_inf=False) - also when a diagram consists of
infinite bars only.

Run from inside the tree under test:
    cd <tree> && PYTHONPATH=<tree> /venv/bin/python /tmp/ref_P16/demo.py
Prints PASS / exits 0 if the property holds, prints FAIL / exits 1 otherwise.
"""
import sys
import warnings

import numpy as np

from persim.persistent_entropy import persistent_entropy

warnings.simplefilter("ignore")


def shannon(dgm):
    """Reference: entropy of the finite bars of one diagram, straight from the definition."""
    finite = dgm[np.isfinite(dgm[:, 1])]
    lengths = finite[:, 1] - finite[:, 0]
    p = lengths / lengths.sum() if len(lengths) else lengths
    return float(-(p * np.log(p)).sum()) + 0.0


a = np.array([[0.0, 1.0], [0.0, 3.0], [2.0, 4.0], [0.0, np.inf]])   # 3 finite bars + 1 essential
b = np.array([[2.0, 5.0], [3.0, 8.0]])                              # finite only
c = np.array([[0.0, np.inf]])                                       # essential class only
d = np.array([[1.0, np.inf], [0.5, np.inf]])                        # two essential classes only

cases = [
    ("essential-only diagram last", [a, b, c]),
    ("two essential-only diagrams last", [b, a, c, d]),
    ("essential-only diagram in the middle", [a, c, b]),
    ("essential-only diagram first", [c, a, b]),
    ("single essential-only diagram", c),
    ("no essential-only diagram", [a, b]),
]

failures = []
for label, dgms in cases:
    as_list = dgms if isinstance(dgms, list) else [dgms]
    expected = np.array([shannon(x) for x in as_list])
    for normalize in (False, True):
        exp = expected
        if normalize:
            exp = np.array([e / np.log(len(x[np.isfinite(x[:, 1])])) if np.isfinite(x[:, 1]).sum() > 1 else np.nan
                            for e, x in zip(expected, as_list)])
        got = persistent_entropy(dgms, normalize=normalize)
        why = None
        if got.shape != exp.shape:
            why = "returned %d values for %d diagrams" % (got.size, len(as_list))
        else:
            cmp = np.isfinite(exp)      # normalised entropy of 0 or 1 bars is not defined (0/0); skip those
            if not np.allclose(got[cmp], exp[cmp], rtol=1e-12, atol=1e-12):
                why = "wrong values"
        if why is None:
            # every entry must also agree with the call on the single diagram
            singles = [persistent_entropy(x, normalize=normalize) for x in as_list]
            if any(s.shape != (1,) for s in singles):
                why = "single-diagram calls returned shapes %r" % ([s.shape for s in singles],)
            elif not np.allclose(got, np.concatenate(singles), rtol=1e-12, atol=1e-12, equal_nan=True):
                why = "list call and single-diagram calls disagree"
        if why is not None:
            failures.append((label, normalize, why, got, exp))

for label, normalize, why, got, exp in failures:
    print("  %s (normalize=%s): %s; got %r, reference %r" % (label, normalize, why, got, exp))

if failures:
    print("FAIL")
    sys.exit(1)
print("PASS")
sys.exit(0)
