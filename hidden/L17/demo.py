"""
C17 demo: a collection call must return symmetric matrices with zero
diagonal whose entries bracket each pairwise mGH distance -- for every
collection of >= 2 graphs, in every container / sparsity format.

Run from inside the worktree:
    cd /tmp/wt_L17 && PYTHONPATH=/tmp/wt_L17 /venv/bin/python /tmp/ref_L17/demo.py
"""
import sys
import warnings

import numpy as np
import scipy.sparse as sps

from persim import gromov_hausdorff

failures = []


def check(cond, msg):
    if not cond:
        failures.append(msg)


def check_collection(name, graphs, expected):
    """expected[i][j] = exact mGH distance between graphs i and j."""
    n = len(graphs)
    np.random.seed(0)
    try:
        with warnings.catch_warnings():
            warnings.simplefilter("ignore")
            result = gromov_hausdorff(graphs)
    except Exception as e:  # noqa: BLE001
        failures.append("%s: raised %r" % (name, e))
        return
    check(isinstance(result, tuple) and len(result) == 2, "%s: not a pair" % name)
    for label, M in zip(("lbs", "ubs"), result):
        ok_shape = isinstance(M, np.ndarray) and M.shape == (n, n)
        check(ok_shape, "%s: %s is %r, expected a %dx%d matrix" % (name, label, M, n, n))
        if not ok_shape:
            return
        check(np.array_equal(M, M.T), "%s: %s not symmetric" % (name, label))
        check(np.all(np.diag(M) == 0), "%s: %s diagonal not zero" % (name, label))
    lbs, ubs = result
    expected = np.asarray(expected, dtype=float)
    check(np.all(lbs <= expected) and np.all(expected <= ubs),
          "%s: bounds do not bracket the distances: %r %r" % (name, lbs, ubs))


# 4-clique (upper-triangular), single vertex, 2-cycle (= an edge), path on 3 vertices.
K4 = [[0, 1, 1, 1], [0, 0, 1, 1], [0, 0, 0, 1], [0, 0, 0, 0]]
PT = [[0]]
K2 = [[0, 1], [0, 0]]
P3 = [[0, 1, 0], [0, 0, 1], [0, 0, 0]]


def as_formats(A):
    A = np.asarray(A)
    S = A + A.T
    return {
        "list": A.tolist(),
        "dense": A,
        "dense-symmetric": S,
        "csr": sps.csr_matrix(A),
        "csr-symmetric": sps.csr_matrix(S),
    }


# mGH(K4, pt) = 0.5, mGH(K4, K2) = 0.5, mGH(pt, K2) = 0.5, mGH(P3, pt) = 1,
# mGH(K4, P3) = 0.5 (diam 1 vs 2, different sizes), mGH(K2, P3) = 0.5.
for fmt in ("list", "dense", "dense-symmetric", "csr", "csr-symmetric"):
    k4, pt, k2, p3 = (as_formats(G)[fmt] for G in (K4, PT, K2, P3))
    # three graphs (what the test-suite exercises)
    check_collection("3 graphs / " + fmt, [k4, pt, k2],
                     [[0, .5, .5], [.5, 0, .5], [.5, .5, 0]])
    # two graphs in a collection, as list and as tuple
    check_collection("2 graphs / list / " + fmt, [k4, pt], [[0, .5], [.5, 0]])
    check_collection("2 graphs / tuple / " + fmt, (p3, pt), [[0, 1], [1, 0]])
    check_collection("2 graphs / equal / " + fmt, [k2, k2], [[0, 0], [0, 0]])

# the two-argument form keeps returning scalars
np.random.seed(0)
lb, ub = gromov_hausdorff(K4, PT)
check(np.ndim(lb) == 0 and np.ndim(ub) == 0 and lb == 0.5 and ub == 0.5,
      "pair call: expected scalars (0.5, 0.5), got %r %r" % (lb, ub))

if failures:
    print("FAIL")
    for f in failures[:10]:
        print("  -", f)
    sys.exit(1)
print("PASS")
sys.exit(0)
