"""Property C15 demo: sliced Wasserstein is the averaged 1-D transport cost.

Checks, on integer-valued diagrams (dtype int64), that
  * the result agrees with an independent reference of the definition,
  * the result does not depend on the dtype the coordinates are stored in,
  * the distance scales linearly and is unchanged by a translation along the
    diagonal into negative coordinates,
  * it never exceeds twice the 1-Wasserstein distance to the empty diagram.
Prints PASS / exits 0 when all hold, FAIL / exits 1 otherwise.
"""
import sys
import warnings

warnings.filterwarnings("ignore")
import numpy as np
from persim import sliced_wasserstein


def reference_sw(PD1, PD2, M):
    PD1 = np.asarray(PD1, dtype=float).reshape(-1, 2)
    PD2 = np.asarray(PD2, dtype=float).reshape(-1, 2)
    mid1 = np.repeat(PD1.mean(axis=1, keepdims=True), 2, axis=1)
    mid2 = np.repeat(PD2.mean(axis=1, keepdims=True), 2, axis=1)
    A = np.vstack([PD1, mid2])
    B = np.vstack([PD2, mid1])
    total = 0.0
    for k in range(M):
        ang = (0.5 + k / M) * np.pi
        d = np.array([np.cos(ang), np.sin(ang)])
        total += np.abs(np.sort(A @ d) - np.sort(B @ d)).sum() / M
    return total


failures = []


def check(name, ok, detail):
    print(("ok   " if ok else "BAD  ") + name + ": " + detail)
    if not ok:
        failures.append(name)


PD1 = np.array([[0, 3], [2, 7], [-4, 1]])          # int64, odd persistences
PD2 = np.array([[1, 4], [-3, 2]])                  # int64
EMPTY = np.empty((0, 2))
M = 20

for name, (A, B) in {"pair": (PD1, PD2), "vs-empty": (PD1, EMPTY)}.items():
    got = sliced_wasserstein(A, B, M)
    ref = reference_sw(A, B, M)
    check("reference[%s]" % name, abs(got - ref) <= 1e-5 * max(1.0, ref),
          "sw=%.6f reference=%.6f" % (got, ref))

    as_float = sliced_wasserstein(A.astype(float), B.astype(float), M)
    check("dtype-independent[%s]" % name, abs(got - as_float) <= 1e-9,
          "int=%.6f float=%.6f" % (got, as_float))

    tripled = sliced_wasserstein(3 * A, 3 * B, M)
    check("linear-scaling[%s]" % name, abs(tripled - 3 * got) <= 1e-5 * max(1.0, tripled),
          "sw(3A,3B)=%.6f 3*sw(A,B)=%.6f" % (tripled, 3 * got))

    moved = sliced_wasserstein(A - 10, B - 10, M)
    check("diagonal-translation[%s]" % name, abs(moved - got) <= 1e-5 * max(1.0, got),
          "sw(A-10,B-10)=%.6f sw(A,B)=%.6f" % (moved, got))

# sw <= 2 * W1; W1 to the empty diagram is the total (L-inf) distance to the diagonal
single = np.array([[0, 1]])
w1 = 0.5
got = sliced_wasserstein(single, EMPTY, M)
check("bounded-by-2*W1", got <= 2 * w1 + 1e-9, "sw=%.6f 2*W1=%.6f" % (got, 2 * w1))

if failures:
    print("FAIL")
    sys.exit(1)
print("PASS")
sys.exit(0)
