"""C02 demo: persim.wasserstein must equal the brute-force min-sum partial matching cost.

Run from inside the worktree:
    cd /tmp/wt_U02 && PYTHONPATH=/tmp/wt_U02 /venv/bin/python /tmp/ref_U02/demo.py
Prints PASS / exits 0 when the property holds, FAIL / exits 1 otherwise.
"""
import sys
import warnings
import numpy as np
from persim import wasserstein


def brute(S, T):
    """Minimum over all partial matchings (points may go to the diagonal)."""
    S = [tuple(p) for p in S]
    T = [tuple(p) for p in T]
    diag = lambda p: (p[1] - p[0]) / np.sqrt(2)

    def rec(i, used):
        if i == len(S):
            return sum(diag(T[j]) for j in range(len(T)) if j not in used)
        best = diag(S[i]) + rec(i + 1, used)
        for j in range(len(T)):
            if j not in used:
                c = np.hypot(S[i][0] - T[j][0], S[i][1] - T[j][1])
                best = min(best, c + rec(i + 1, used | {j}))
        return best

    return rec(0, frozenset())


def check(S, T, label, failures):
    S = np.asarray(S, dtype=float).reshape(-1, 2)
    T = np.asarray(T, dtype=float).reshape(-1, 2)
    want = brute(S, T)
    with warnings.catch_warnings():
        warnings.simplefilter("ignore")
        try:
            got = wasserstein(S if len(S) else np.array([]), T if len(T) else np.array([]))
        except Exception as e:  # pragma: no cover
            failures.append((label, "exception %r" % (e,), want))
            return
    # sklearn's pairwise distances lose about half the digits for close points,
    # so compare relative to the magnitude of the coordinates.
    mag = max([1e-300] + [abs(v) for v in np.concatenate([S.ravel(), T.ravel()])])
    if not np.isclose(got, want, rtol=1e-6, atol=1e-6 * mag):
        failures.append((label, got, want))


def main():
    failures = []
    # Hand-made case: the optimal matching is a cyclic shift (S0-T1, S1-T2, S2-T0),
    # i.e. the assignment permutation is not its own inverse.
    S = [[0.0, 1.0], [0.0, 2.0], [0.0, 3.0]]
    T = [[0.0, 3.1], [0.0, 1.1], [0.0, 2.1]]
    check(S, T, "cyclic shift", failures)
    # Mixed: one cross pairing off the index diagonal plus points sent to the diagonal.
    S = [[0.0, 0.2], [1.0, 5.0]]
    T = [[1.0, 5.5], [3.0, 3.3]]
    check(S, T, "mixed cross/diagonal", failures)
    # Empty and trivial cases
    check([], [], "both empty", failures)
    check([], [[0.0, 2.0], [1.0, 1.0]], "one empty", failures)
    # Random small diagrams at several numeric scales, with ties and diagonal points
    rng = np.random.default_rng(13)
    for t in range(300):
        m, n = rng.integers(0, 5, size=2)
        scale = 10.0 ** rng.integers(-6, 7)
        b1 = rng.random(m); S = np.stack([b1, b1 + rng.random(m) * rng.integers(0, 2, m)], 1) * scale
        b2 = rng.random(n); T = np.stack([b2, b2 + rng.random(n) * rng.integers(0, 2, n)], 1) * scale
        if t % 7 == 0 and m and n:
            T[0] = S[-1]
        check(S, T, "random #%d (M=%d, N=%d, scale=%g)" % (t, m, n, scale), failures)

    if failures:
        for label, got, want in failures[:6]:
            print("  %s: wasserstein=%r  brute-force optimum=%r" % (label, got, want))
        print("FAIL (%d of the checked diagram pairs disagree with the true min-sum matching cost)" % len(failures))
        return 1
    print("PASS")
    return 0


if __name__ == "__main__":
    sys.exit(main())
