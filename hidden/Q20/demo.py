"""C20 demo: the 2-D landscape plot draws one line per depth, from the critical points.

Run from inside the worktree:
    cd /tmp/wt_Q20 && PYTHONPATH=/tmp/wt_Q20 /venv/bin/python /tmp/ref_Q20/demo.py
"""
import sys
import warnings

warnings.filterwarnings("ignore")
import matplotlib

matplotlib.use("Agg")
import matplotlib.pyplot as plt
import numpy as np

from persim.landscapes import PersLandscapeExact, plot_landscape_simple

# H1 diagram with nested / overlapping bars -> a landscape with several depths
dgms = [
    np.array([[0.0, 1.0]]),
    np.array([[0.0, 6.0], [1.0, 5.0], [2.0, 7.0], [3.0, 4.5]]),
]

# what should be drawn: the critical points of every depth
expected = PersLandscapeExact(dgms=dgms, hom_deg=1).critical_pairs
assert len(expected) >= 3, "demo input should have several depths"

problems = []


def check(tag, landscape, **kw):
    fig, ax = plt.subplots()
    plot_landscape_simple(landscape, ax=ax, **kw)
    lines = ax.get_lines()
    if len(lines) != len(expected):
        problems.append(
            "%s: %d lines drawn for a landscape with %d depths" % (tag, len(lines), len(expected))
        )
    for depth, (ln, crit) in enumerate(zip(lines, expected)):
        if not np.array_equal(ln.get_xydata(), np.array(crit, dtype=float)):
            problems.append("%s: line %d is not the depth-%d critical points" % (tag, depth, depth))
    legend = [t.get_text() for t in ax.get_legend().get_texts()]
    if len(legend) != len(expected):
        problems.append("%s: legend has %d entries, expected %d" % (tag, len(legend), len(expected)))
    plt.close(fig)


# a landscape that was computed at construction
check("eager", PersLandscapeExact(dgms=dgms, hom_deg=1))
# a lazily constructed landscape: the plot function computes it itself
check("lazy", PersLandscapeExact(dgms=dgms, hom_deg=1, compute=False))
# the same lazy landscape plotted twice gives the same picture both times
lazy = PersLandscapeExact(dgms=dgms, hom_deg=1, compute=False)
check("lazy, 1st call", lazy)
check("lazy, 2nd call", lazy)

if problems:
    print("FAIL")
    for p in problems:
        print("  " + p)
    sys.exit(1)
print("PASS")
sys.exit(0)
