"""Checks that the matching returned by wasserstein / bottleneck certifies the
reported distance.  Run from inside the worktree:
    cd /tmp/wt_V06 && PYTHONPATH=/tmp/wt_V06 /venv/bin/python /tmp/ref_V06/demo.py
"""
import sys
import warnings

import numpy as np

warnings.simplefilter("ignore")
from persim import bottleneck, wasserstein


def as_points(dgm):
    A = np.asarray(dgm, dtype=float)
    if A.size == 0:
        A = np.array([[0.0, 0.0]])
    return A[:, :2]


def check(name, func, dgm1, dgm2, pair_cost, diag_cost, combine):
    S, T = as_points(dgm1), as_points(dgm2)
    d0 = func(dgm1, dgm2)
    d, m = func(dgm1, dgm2, matching=True)
    problems = []
    if not np.isclose(d, d0):
        problems.append("distance changes with matching=True: {} vs {}".format(d, d0))
    left = sorted(int(i) for i in m[:, 0] if i >= 0)
    right = sorted(int(j) for j in m[:, 1] if j >= 0)
    if left != list(range(len(S))) or right != list(range(len(T))):
        problems.append("index columns do not cover each point exactly once")
    if np.any((m[:, 0] < 0) & (m[:, 1] < 0)):
        problems.append("diagonal-diagonal row present")
    for i, j, c in m:
        i, j = int(i), int(j)
        if i >= 0 and j >= 0:
            want = pair_cost(S[i], T[j])
        elif i >= 0:
            want = diag_cost(S[i])
        else:
            want = diag_cost(T[j])
        if not np.isclose(c, want):
            problems.append("row ({}, {}) reports cost {} but the pairing costs {}".format(i, j, c, want))
    if not np.isclose(combine(m[:, 2]), d):
        problems.append("row costs combine to {} but the distance is {}".format(combine(m[:, 2]), d))
    for p in problems:
        print("  [{}] {}".format(name, p))
    return not problems


W = dict(pair_cost=lambda p, q: float(np.hypot(*(p - q))),
         diag_cost=lambda p: float((p[1] - p[0]) / np.sqrt(2)), combine=np.sum)
B = dict(pair_cost=lambda p, q: float(np.max(np.abs(p - q))),
         diag_cost=lambda p: float((p[1] - p[0]) / 2), combine=np.max)

cases = [
    (np.array([[0.5, 1], [0.6, 1.1]]), np.array([[0.5, 1.1], [0.6, 1.1], [0.8, 1.1], [1.0, 1.1]])),
    (np.array([[0.0, 1.0], [0.0, 10.0]]), np.array([[0.0, 10.5]])),
    (np.array([[2.0, 3.0], [0.0, 4.0], [5.0, 9.0]]), np.array([[5.0, 9.5], [0.5, 4.0]])),
    (np.array([[1, 2], [1, 2], [3, 8]]), np.array([[3, 7]])),
    (np.array([[0.0, 1.0], [2.0, 2.5], [4.0, 6.0]]), np.array([])),
    (np.array([]), np.array([[0.0, 1.0], [2.0, 2.5]])),
]

ok = True
for k, (a, b) in enumerate(cases):
    for _ in range(2):  # repeated calls
        ok &= check("wasserstein case {}".format(k), wasserstein, a, b, **W)
        ok &= check("bottleneck case {}".format(k), bottleneck, a, b, **B)

print("PASS" if ok else "FAIL")
sys.exit(0 if ok else 1)
