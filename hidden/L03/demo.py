"""C03 demo: the exact landscape must equal the k-th-largest-tent definition
for bars given in ANY input order.

Run from inside the worktree so that the local copy of persim is imported:
    cd /tmp/wt_L03 && PYTHONPATH=/tmp/wt_L03 /venv/bin/python /tmp/ref_L03/demo.py
Prints PASS and exits 0 if every case agrees with the definition, FAIL / 1 otherwise.
"""
import itertools
import sys

import numpy as np

from persim import PersLandscapeExact


def definition(bars, t, k):
    """k-th largest (k >= 1) of max(0, min(t-b, d-t)) over the bars."""
    tents = sorted((max(0.0, min(t - b, d - t)) for b, d in bars), reverse=True)
    return tents[k - 1] if k <= len(tents) else 0.0


def evaluate(pairs, t):
    """Linear interpolation of one depth's critical pairs, 0 outside them."""
    xs = [float(p[0]) for p in pairs]
    ys = [float(p[1]) for p in pairs]
    if not xs or t < xs[0] or t > xs[-1]:
        return 0.0
    return float(np.interp(t, xs, ys))


def agrees(bars):
    """Compare the computed landscape with the definition on a fine grid."""
    dgm = np.array(bars, dtype=float)
    cps = PersLandscapeExact(dgms=[dgm], hom_deg=0).critical_pairs
    # abscissae must be non-decreasing
    for pairs in cps:
        xs = [p[0] for p in pairs]
        if any(x1 < x0 for x0, x1 in zip(xs, xs[1:])):
            return False, "critical points out of order"
    lo = min(b for b, _ in bars) - 1.0
    hi = max(d for _, d in bars) + 1.0
    grid = np.linspace(lo, hi, 8 * int(hi - lo) + 1)  # multiples of 1/8: exact
    for k in range(1, len(bars) + 2):
        pairs = cps[k - 1] if k <= len(cps) else []
        for t in grid:
            got, want = evaluate(pairs, t), definition(bars, t, k)
            if abs(got - want) > 1e-9:
                return False, f"depth {k}, t={t}: got {got}, definition {want}"
    return True, ""


# all bars distinct (the repeated-bar shortcut is never involved)
textbook = [(1, 5), (2, 8), (3, 4), (5, 9), (6, 7)]
cases = [
    ("textbook, birth order", textbook),
    ("textbook, reversed", textbook[::-1]),
    ("two nested bars, inner first", [(1, 4), (0, 5)]),
    ("two overlapping bars, later first", [(2, 6), (0, 3)]),
    ("equal births, short first", [(0, 2), (0, 4), (1, 3)]),
]
cases += [
    (f"textbook, permutation {perm}", [textbook[i] for i in perm])
    for perm in itertools.islice(itertools.permutations(range(5)), 1, None, 17)
]

bad = 0
for name, bars in cases:
    ok, why = agrees(bars)
    if not ok:
        bad += 1
        print(f"  mismatch [{name}] bars={bars}: {why}")

if bad:
    print(f"FAIL ({bad} of {len(cases)} diagrams disagree with the definition)")
    sys.exit(1)
print(f"PASS ({len(cases)} diagrams agree with the definition)")
sys.exit(0)
