"""C15 demo: sliced_wasserstein(PD1, PD2, M) must equal the average over the M
sampled directions of the 1-D transport cost -- for every M, whatever was
computed before.  Prints PASS / exits 0 when that holds, FAIL / exits 1 otherwise."""
import sys
import numpy as np
import persim
from persim import sliced_wasserstein


def reference(PD1, PD2, M):
    """Independent float64 evaluation of the definition."""
    def diag(P):
        m = P.sum(axis=1) / 2.0
        return np.c_[m, m]
    A = np.r_[PD1.reshape(-1, 2), diag(PD2.reshape(-1, 2))]
    B = np.r_[PD2.reshape(-1, 2), diag(PD1.reshape(-1, 2))]
    total = 0.0
    for k in range(M):
        t = np.pi * (0.5 + k / M)
        l = np.array([np.cos(t), np.sin(t)])
        total += np.abs(np.sort(A @ l) - np.sort(B @ l)).sum()
    return total / M


rng = np.random.default_rng(15)
problems = []
for trial in range(5):
    n1, n2 = rng.integers(1, 7, 2)
    b1 = rng.normal(0, 2, n1); PD1 = np.c_[b1, b1 + rng.exponential(1, n1)]   # births of either sign
    b2 = rng.normal(0, 2, n2); PD2 = np.c_[b2, b2 + rng.exponential(1, n2)]
    if trial == 4:
        PD2 = np.empty((0, 2))
    for M in (200, 20, 50, 7, 1, 64):        # a fine sampling first, coarser ones afterwards
        got = float(sliced_wasserstein(PD1, PD2, M))
        want = reference(PD1, PD2, M)
        if not abs(got - want) <= 1e-5 * max(1.0, want):
            problems.append((trial, M, got, want))
    # symmetry across different call histories
    a = float(sliced_wasserstein(PD1, PD2, 30))
    sliced_wasserstein(PD1, PD2, 90)
    b = float(sliced_wasserstein(PD2, PD1, 30))
    if not abs(a - b) <= 1e-9 * max(1.0, a):
        problems.append((trial, "symmetry M=30", a, b))

print("persim from", persim.__file__)
for p in problems[:8]:
    print("  mismatch: trial=%s M=%s got=%r expected=%r" % p)
if problems:
    print("FAIL (%d mismatches)" % len(problems))
    sys.exit(1)
print("PASS")
sys.exit(0)
