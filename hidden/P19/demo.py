"""C19 demo: the imagers must not modify the diagrams / lists handed to them, repeated
calls must agree, and the container type (list / tuple / stacked array) must not matter.

run:  cd /tmp/wt_P19 && PYTHONPATH=/tmp/wt_P19 /venv/bin/python /tmp/ref_P19/demo.py
exit 0 + PASS on the original tree and with clean.diff, exit 1 + FAIL with patch.diff.
"""
import sys
import warnings

import matplotlib

matplotlib.use("Agg")
import numpy as np

warnings.simplefilter("ignore")

from persim import PersImage, PersistenceImager

problems = []


def make():
    return [
        np.array([[0.5, 0.8], [0.7, 2.2], [2.5, 4.0]]),
        np.array([[0.1, 0.2], [3.1, 3.3], [1.6, 2.9]]),
        np.array([[0.2, 1.5], [0.4, 0.6], [0.2, 2.6]]),
    ]


def unchanged(lst, ids, ref, where):
    if [id(d) for d in lst] != ids:
        problems.append("%s: entries of the caller's list were replaced" % where)
    elif not all(np.array_equal(a, b) for a, b in zip(lst, ref)):
        problems.append("%s: diagrams in the caller's list were modified" % where)


# 1. PersistenceImager: the documented workflow fit(dgms) ; transform(dgms) on a list of diagrams
dgms, ref = make(), make()
ids = [id(d) for d in dgms]
pimgr = PersistenceImager(pixel_size=0.5)
pimgr.fit(dgms, skew=True)
unchanged(dgms, ids, ref, "PersistenceImager.fit(list)")
imgs = pimgr.transform(dgms, skew=True)
expected = pimgr.transform(make(), skew=True)  # same values, fresh objects
if not all(np.array_equal(a, b) for a, b in zip(imgs, expected)):
    problems.append("fit(dgms); transform(dgms) differs from transform of equal-valued fresh diagrams")

# fit is repeatable: fitting the same list again must give the same imager
state = (pimgr.birth_range, pimgr.pers_range, pimgr.resolution)
pimgr.fit(dgms, skew=True)
if (pimgr.birth_range, pimgr.pers_range, pimgr.resolution) != state:
    problems.append("fitting the same list twice gives two different imagers: %r vs %r"
                    % (state, (pimgr.birth_range, pimgr.pers_range, pimgr.resolution)))

# 2. deprecated PersImage: transform(list) twice
dgms = make()
ids = [id(d) for d in dgms]
pim = PersImage(pixels=(6, 6), specs={"maxBD": 4.0, "minBD": 0.0}, verbose=False)
first = pim.transform(dgms)
unchanged(dgms, ids, ref, "PersImage.transform(list)")
second = pim.transform(dgms)
if not all(np.array_equal(a, b) for a, b in zip(first, second)):
    problems.append("PersImage.transform(dgms) twice on the same list returns different images")

# 3. representation: tuple of diagrams and stacked 3-d array against the list form
as_list = make()
p1 = PersistenceImager(pixel_size=0.5)
p1.fit(as_list)
try:
    p2 = PersistenceImager(pixel_size=0.5)
    p2.fit(tuple(make()))
    if (p1.birth_range, p1.pers_range) != (p2.birth_range, p2.pers_range):
        problems.append("fit(tuple) and fit(list) disagree")
except Exception as e:  # noqa
    problems.append("fit(tuple of diagrams) raises %s although fit(list) works" % type(e).__name__)

stacked = np.stack(make())
before = stacked.copy()
p3 = PersistenceImager(pixel_size=0.5)
p3.fit(stacked)
if not np.array_equal(stacked, before):
    problems.append("fit(stacked 3-d array) wrote into the caller's array")

if problems:
    print("FAIL")
    for p in problems:
        print("  -", p)
    sys.exit(1)
print("PASS")
sys.exit(0)
