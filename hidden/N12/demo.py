"""C12 demo: imager geometry stays self-consistent and COVERS what was asked for.

Run from inside the worktree:
    cd /tmp/wt_N12 && PYTHONPATH=/tmp/wt_N12 /venv/bin/python /tmp/ref_N12/demo.py
Prints PASS / exits 0 when every history keeps the invariant, FAIL / exits 1 otherwise.
"""
import sys
import warnings

import matplotlib

matplotlib.use("Agg")
warnings.simplefilter("ignore")

import numpy as np

from persim import PersistenceImager

EPS = 1e-9  # relative slack for honest floating point noise (a few ulp), far below the effect shown


def check(im, asked_birth, asked_pers, label, problems, image=None):
    ps = im.pixel_size
    for name, rng, asked, extent, n, edges in (
        ("birth", im.birth_range, asked_birth, im.width, im.resolution[0], im._bpnts),
        ("pers", im.pers_range, asked_pers, im.height, im.resolution[1], im._ppnts),
    ):
        scale = abs(rng[0]) + abs(rng[1]) + ps
        slack = EPS * scale
        # pixels are squares of exactly the configured size
        if len(edges) != n + 1 or not np.allclose(np.diff(edges), ps, rtol=1e-9, atol=slack):
            problems.append("%s: %s pixel edges are not %d steps of %r" % (label, name, n, ps))
        # resolution * pixel size == covered extent == extent attribute
        if abs(n * ps - (rng[1] - rng[0])) > slack or abs(n * ps - extent) > slack:
            problems.append("%s: %s resolution*pixel_size != covered extent" % (label, name))
        # covered range contains what was asked for ...
        if asked is not None:
            if rng[0] > asked[0] + slack or rng[1] < asked[1] - slack:
                problems.append(
                    "%s: %s range %r does not contain the requested %r (short by %.3g pixel at the low end, %.3g at the high end)"
                    % (label, name, tuple(map(float, rng)), tuple(map(float, asked)),
                       (rng[0] - asked[0]) / ps, (asked[1] - rng[1]) / ps)
                )
            # ... and exceeds it by no more than one pixel
            if (rng[1] - rng[0]) - (asked[1] - asked[0]) > ps + slack:
                problems.append("%s: %s range exceeds the request by more than a pixel" % (label, name))
    if image is not None and tuple(image.shape) != tuple(im.resolution):
        problems.append("%s: image shape %r != resolution %r" % (label, image.shape, im.resolution))


def main():
    problems = []

    # 1. constructor, fine pixels, range a hair over a whole number of pixels (500.003 pixels)
    im = PersistenceImager(birth_range=(0.0, 5.00003), pers_range=(0.0, 1.0), pixel_size=0.01)
    check(im, (0.0, 5.00003), (0.0, 1.0), "constructor 5.00003/0.01", problems)

    # 2. setter after construction (2000.01 pixels asked for)
    im = PersistenceImager(birth_range=(0.0, 1.0), pers_range=(0.0, 1.0), pixel_size=0.1)
    im.pixel_size = 0.001
    covered = (im.birth_range, im.pers_range)
    check(im, covered[0], covered[1], "pixel_size := 0.001", problems)
    im.pers_range = (-1.0, 1.00001)
    check(im, None, (-1.0, 1.00001), "pers_range := (-1, 1.00001) at pixel 0.001", problems)

    # 3. fit: every fitted point has to lie inside the image
    dgm = np.array([[0.0, 0.5], [1.25, 2.0], [3.00002, 3.30003]])
    im = PersistenceImager(pixel_size=0.01)
    im.fit(dgm)
    pers = dgm[:, 1] - dgm[:, 0]
    img = im.transform(dgm)
    check(im, (dgm[:, 0].min(), dgm[:, 0].max()), (pers.min(), pers.max()), "fit at pixel 0.01", problems, image=img)

    # 4. controls on inexact but harmless quotients (0.3/0.1, 0.7/0.1, 1/3) and a longer history
    im = PersistenceImager(birth_range=(0.0, 0.3), pers_range=(0.0, 0.7), pixel_size=0.1)
    check(im, (0.0, 0.3), (0.0, 0.7), "constructor 0.3 and 0.7 at 0.1", problems)
    im.pixel_size = 1.0 / 3
    check(im, None, None, "pixel_size := 1/3", problems)
    im.birth_range = (-0.45, 1.7)
    check(im, (-0.45, 1.7), None, "birth_range := (-0.45, 1.7)", problems)
    img = im.transform(np.array([[0.1, 0.4], [0.2, 0.9]]))
    check(im, None, None, "transform", problems, image=img)

    if problems:
        for p in problems:
            print(" -", p)
        print("FAIL")
        return 1
    print("PASS")
    return 0


if __name__ == "__main__":
    sys.exit(main())
