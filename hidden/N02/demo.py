"""
C02 demo: the Wasserstein distance returned by persim.wasserstein must be the
true min-sum partial-matching cost -- also when the caller asks for the
matching as well (matching=True returns (distance, matching table)).

Run from inside the worktree:
    cd /tmp/wt_N02 && PYTHONPATH=/tmp/wt_N02 /venv/bin/python /tmp/ref_N02/demo.py
Prints PASS / exits 0 when every returned distance equals the brute-force
optimum, prints FAIL / exits 1 otherwise.
"""
import sys
import warnings
import numpy as np
from persim import wasserstein


def brute(A, B):
    """min over all partial matchings, by exhaustive enumeration"""
    A = [tuple(p) for p in A]
    B = [tuple(p) for p in B]
    diag = lambda p: (p[1] - p[0]) / np.sqrt(2)
    dist = lambda p, q: float(np.hypot(p[0] - q[0], p[1] - q[1]))

    def go(i, free):
        if i == len(A):
            return sum(diag(B[j]) for j in free)
        best = diag(A[i]) + go(i + 1, free)
        for j in free:
            best = min(best, dist(A[i], B[j]) + go(i + 1, free - {j}))
        return best

    return go(0, frozenset(range(len(B))))


def cases():
    rng = np.random.default_rng(2)
    yield np.array([[0.0, 4.0]]), np.array([[1.0, 5.0]])
    yield np.array([[0.0, 10.0], [2.0, 3.0]]), np.array([[1.0, 9.0]])
    yield np.array([[1.0, 2.0]]), np.array([])
    yield np.array([[0, 10], [0, 10]]), np.array([[0, 10]])
    for _ in range(40):
        m, n = rng.integers(0, 5, size=2)
        A = rng.uniform(0, 5, size=(m, 2)); A[:, 1] += A[:, 0]
        B = rng.uniform(0, 5, size=(n, 2)); B[:, 1] += B[:, 0]
        yield A, B


bad = 0
total = 0
with warnings.catch_warnings():
    warnings.simplefilter("ignore")
    for A, B in cases():
        want = brute(A.reshape(-1, 2), B.reshape(-1, 2))
        d_plain = wasserstein(A, B)
        d_match, table = wasserstein(A, B, matching=True)
        for label, got in (("matching=False", d_plain), ("matching=True", d_match)):
            total += 1
            if not np.isclose(got, want, rtol=1e-7, atol=1e-9):
                bad += 1
                if bad <= 5:
                    print("mismatch (%s): sizes %d/%d  returned %.6f  true optimum %.6f"
                          % (label, len(A.reshape(-1, 2)), len(B.reshape(-1, 2)), got, want))
        # the table itself must account for the optimum, too
        if not np.isclose(table[:, 2].sum(), want, rtol=1e-7, atol=1e-9):
            bad += 1

print("%d of %d returned distances differ from the brute-force optimum" % (bad, total))
if bad:
    print("FAIL")
    sys.exit(1)
print("PASS")
sys.exit(0)
