"""Demo for property C09 (landscape arithmetic / averages on a common grid).

The average of grid landscapes must equal the same combination of the values
re-sampled (linear interpolation) onto the requested grid, whichever way the
grid is spelled in the call.

Run from inside the worktree:
    cd /tmp/wt_T09 && PYTHONPATH=/tmp/wt_T09 /venv/bin/python /tmp/ref_T09/demo.py
Prints PASS / exits 0 when the property holds, prints FAIL / exits 1 otherwise.
"""
import sys
import warnings

import numpy as np

from persim.landscapes import PersLandscapeApprox, average_approx, snap_pl

warnings.simplefilter("ignore")

P = PersLandscapeApprox(
    start=0, stop=5, num_steps=6, values=np.array([[0.0, 1, 2, 3, 2, 1], [0, 0, 1, 1, 0, 0]])
)
Q = PersLandscapeApprox(
    start=1, stop=6, num_steps=6, values=np.array([[0.0, 1, 2, 2, 1, 0]])
)
R = PersLandscapeApprox(
    start=2, stop=4, num_steps=5, values=np.array([[0.0, 0.5, 1, 0.5, 0]])
)
ops = [P, Q, R]
before = [(o.start, o.stop, o.num_steps, o.values.copy()) for o in ops]

start, stop, num_steps = -1.0, 9.0, 21
target = np.linspace(start, stop, num_steps)


def resampled(pl, depth):
    if depth >= len(pl.values):
        return np.zeros_like(target)
    return np.interp(target, np.linspace(pl.start, pl.stop, pl.num_steps), pl.values[depth])


expected = np.array(
    [sum(resampled(pl, d) for pl in ops) / len(ops) for d in range(2)]
)

problems = []
calls = {
    "keywords": lambda: average_approx(ops, start=start, stop=stop, num_steps=num_steps),
    "by position": lambda: average_approx(ops, start, stop, num_steps),
    "mixed": lambda: average_approx(ops, start, stop, num_steps=num_steps),
    "by position, after an earlier call": lambda: average_approx(ops, start, stop, num_steps),
}
for label, call in calls.items():
    avg = call()
    got_grid = (avg.start, avg.stop, avg.num_steps)
    if got_grid != (start, stop, num_steps):
        problems.append(f"{label}: result lives on grid {got_grid}, requested {(start, stop, num_steps)}")
        continue
    if avg.values.shape != expected.shape or not np.allclose(avg.values, expected, atol=1e-12):
        problems.append(f"{label}: values differ from the average of the re-sampled values")

# the same combination through snap_pl and the operators
snapped = snap_pl(ops, start=start, stop=stop, num_steps=num_steps)
manual = (snapped[0] + snapped[1] + snapped[2]) / 3
if not np.allclose(manual.values, expected, atol=1e-12):
    problems.append("snap_pl + operators: values differ from the average of the re-sampled values")

for o, (s0, s1, n, vals) in zip(ops, before):
    if (o.start, o.stop, o.num_steps) != (s0, s1, n) or not np.array_equal(o.values, vals):
        problems.append("an operand was modified")

if problems:
    print("FAIL")
    for p in problems:
        print("  -", p)
    sys.exit(1)
print("PASS")
sys.exit(0)
