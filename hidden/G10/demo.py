"""C10 demo: the p-norm of a landscape difference equals the integral it names.

P = landscape of {(0, 4)}, Q = landscape of {(3, 7)}.  P - Q runs from height +1
at x = 3 down to -1 at x = 4, so it contains a *descending* sign change.
||P - Q||_p is compared with (a) a brute-force numerical integral of |f|^p,
(b) ||Q - P||_p (absolute homogeneity with factor -1), for exact and grid
landscapes and several p.
"""
import sys
import numpy as np
import matplotlib

matplotlib.use("Agg")
from persim.landscapes import PersLandscapeExact, PersLandscapeApprox


def brute(pairs_per_depth, p, n=400001):
    total = 0.0
    for fn in pairs_per_depth:
        fn = np.asarray(fn, dtype=float)
        xs = np.linspace(fn[0, 0], fn[-1, 0], n)
        ys = np.abs(np.interp(xs, fn[:, 0], fn[:, 1])) ** p
        total += np.sum((ys[1:] + ys[:-1]) * np.diff(xs)) / 2.0
    return total ** (1.0 / p)


def main():
    bad = []
    d1 = [np.array([[0.0, 4.0]])]
    d2 = [np.array([[3.0, 7.0]])]

    PE, QE = PersLandscapeExact(dgms=d1), PersLandscapeExact(dgms=d2)
    PA = PersLandscapeApprox(start=0, stop=8, num_steps=11, dgms=d1)
    QA = PersLandscapeApprox(start=0, stop=8, num_steps=11, dgms=d2)

    for name, P, Q in (("exact", PE, QE), ("grid", PA, QA)):
        D, R = P - Q, Q - P
        pairs = D.critical_pairs if name == "exact" else D.values_to_pairs()
        for p in (1, 2, 3, 2.5):
            got, rev, want = D.p_norm(p), R.p_norm(p), brute(pairs, p)
            ok = (
                np.isfinite(got)
                and abs(got - want) <= 1e-4 * max(1.0, want)
                and abs(got - rev) <= 1e-9 * max(1.0, want)
            )
            print(f"{name:5s} p={p:<4} ||P-Q||={got!r:24} ||Q-P||={rev!r:24} integral={want:.9f} {'ok' if ok else 'MISMATCH'}")
            if not ok:
                bad.append((name, p))
        # triangle inequality: ||P|| <= ||P - Q|| + ||Q||
        if not P.p_norm(2) <= D.p_norm(2) + Q.p_norm(2) + 1e-12:
            print(name, "triangle inequality violated")
            bad.append((name, "triangle"))

    if bad:
        print("FAIL", bad)
        return 1
    print("PASS")
    return 0


if __name__ == "__main__":
    sys.exit(main())
