"""Demo for property C07 (metric / invariance laws of bottleneck and wasserstein).

Run from inside the worktree so that the worktree's persim is imported:
    cd /tmp/wt_P07 && PYTHONPATH=/tmp/wt_P07 /venv/bin/python /tmp/ref_P07/demo.py

Diagrams are drawn both float-typed and integer-typed (integer birth/death
values are what lower-star filtrations of integer images and index-valued
filtrations give).  Prints PASS and exits 0 if every law holds, FAIL and exits 1
otherwise.
"""
import sys
import warnings

import numpy as np

import persim
from persim import bottleneck, wasserstein

# sklearn's euclidean_distances leaves ~1e-7 of round-off per matched pair, so
# the laws are checked to 1e-4; the violations of interest are of order 0.1-10.
TOL = 1e-4
rng = np.random.default_rng(7)
failures = []


def check(ok, what, *info):
    if not ok:
        failures.append(what)
        if len(failures) <= 8:
            print("  violated:", what, *info)


def float_dgm(n):
    b = rng.uniform(0, 10, size=n)
    return np.stack([b, b + rng.uniform(0, 5, size=n)], axis=1)


def int_dgm(n):
    b = rng.integers(0, 10, size=n)
    return np.stack([b, b + rng.integers(1, 6, size=n)], axis=1)


def main():
    print("persim from", persim.__file__)
    warnings.simplefilter("ignore")
    for trial in range(60):
        n1, n2, n3 = (int(x) for x in rng.integers(1, 40, size=3))
        X = int_dgm(n1) if trial % 2 == 0 else float_dgm(n1)
        Y = float_dgm(n2)
        Z = int_dgm(n3) if trial % 3 == 0 else float_dgm(n3)
        for name, dist in (("wasserstein", wasserstein), ("bottleneck", bottleneck)):
            if name == "bottleneck" and trial >= 12:
                continue  # the search is slow; a dozen triples is enough
            dxy, dyx = dist(X, Y), dist(Y, X)
            dxz, dzy = dist(X, Z), dist(Z, Y)
            tag = "%s trial %d (%s X, float Y)" % (name, trial, X.dtype)
            check(abs(dxy - dyx) <= TOL, tag + " symmetry", dxy, dyx)
            check(dxy >= 0, tag + " non-negativity", dxy)
            check(dxy <= dxz + dzy + TOL, tag + " triangle", dxy, dxz, dzy)
            check(abs(dist(X, X[rng.permutation(n1)])) <= TOL, tag + " reorder")
            # scaling both diagrams by 2 (exact in either dtype)
            check(abs(dist(2 * X, 2 * Y) - 2 * dxy) <= TOL * (1 + dxy), tag + " scaling",
                  dist(2 * X, 2 * Y), 2 * dxy)
            # translation of both along the diagonal by an integer step
            check(abs(dist(X + 3, Y + 3) - dxy) <= TOL * (1 + dxy), tag + " shift",
                  dist(X + 3, Y + 3), dxy)
            # adding points on the diagonal to the second diagram
            diag = np.repeat(rng.uniform(0, 10, size=3), 2).reshape(3, 2)
            check(abs(dist(X, np.vstack([Y, diag])) - dxy) <= TOL * (1 + dxy),
                  tag + " diagonal points", dist(X, np.vstack([Y, diag])), dxy)
            # against the empty diagram
            pers = (X[:, 1] - X[:, 0]).astype(float)
            ref = pers.sum() / np.sqrt(2) if name == "wasserstein" else pers.max() / 2
            check(abs(dist(X, np.array([])) - ref) <= TOL * (1 + ref), tag + " vs empty (1)")
            check(abs(dist(np.array([]), X) - ref) <= TOL * (1 + ref), tag + " vs empty (2)")
        if trial < 12:
            check(bottleneck(X, Y) <= wasserstein(X, Y) + TOL, "trial %d bottleneck<=wasserstein" % trial)

    if failures:
        print("%d law violations" % len(failures))
        print("FAIL")
        return 1
    print("PASS")
    return 0


if __name__ == "__main__":
    sys.exit(main())
