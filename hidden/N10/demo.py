"""C10 demo: the p-norm of a grid landscape must equal the integral it names.

Run from inside the worktree so that the worktree's persim is imported:

    cd /tmp/wt_N10 && PYTHONPATH=/tmp/wt_N10 /venv/bin/python /tmp/ref_N10/demo.py

Grid landscapes given by integer-typed samples (as in the library's own tests and docs, e.g.
values=np.array([[0, 1, 2, 1, 0]])) on a grid whose points are not integers, their scalar multiples and
their differences (which change sign), are checked against an independent evaluation of
(sum_k integral |f_k|^p)^(1/p), and against the same landscape given with float-typed samples.
Prints PASS and exits 0 if everything agrees, prints FAIL and exits 1 otherwise.
"""
import sys
import warnings

import numpy as np

warnings.simplefilter("ignore")

from persim import PersLandscapeApprox


def piece(a, b, w, p):
    """integral of a linear function going from a >= 0 to b >= 0 over width w, to the power p"""
    if a == b:
        return w * a**p
    return w * (b ** (p + 1) - a ** (p + 1)) / ((p + 1) * (b - a))


def reference_norm(start, stop, values, p):
    """(sum_k int |f_k|^p)^(1/p) for the piecewise-linear interpolants of the rows of `values`"""
    values = np.asarray(values, dtype=float)
    xs = np.linspace(start, stop, values.shape[1])
    total = 0.0
    for row in values:
        for x0, x1, y0, y1 in zip(xs, xs[1:], row, row[1:]):
            w = x1 - x0
            if y0 * y1 < 0:  # sign change: split at the root
                t = abs(y0) / (abs(y0) + abs(y1))
                total += piece(abs(y0), 0.0, w * t, p) + piece(0.0, abs(y1), w * (1 - t), p)
            else:
                total += piece(abs(y0), abs(y1), w, p)
    return total ** (1.0 / p)


def brute_norm(start, stop, values, p, m=200001):
    """independent sanity check of the reference: trapezoid rule on a very fine grid"""
    values = np.asarray(values, dtype=float)
    xs = np.linspace(start, stop, values.shape[1])
    t = np.linspace(start, stop, m)
    total = 0.0
    for row in values:
        f = np.abs(np.interp(t, xs, row)) ** p
        total += np.sum((f[1:] + f[:-1]) / 2) * (t[1] - t[0])
    return total ** (1.0 / p)


failures = []


def check(label, got, want, rtol=1e-9):
    ok = np.isfinite(got) and abs(got - want) <= rtol * max(1.0, abs(want))
    print(f"  {'ok  ' if ok else 'BAD '} {label}: got {got!r}, expected {want!r}")
    if not ok:
        failures.append(label)


def landscape(start, stop, values):
    values = np.asarray(values)
    return PersLandscapeApprox(start=start, stop=stop, num_steps=values.shape[1], values=values)


# grids whose points are not integers; samples are integer typed
cases = {
    "tent on [0, 1]": (0.0, 1.0, np.array([[0, 1, 2, 1, 0]])),
    "two depths on [0, 3]": (0.0, 3.0, np.array([[0, 1, 2, 3, 2, 1, 0], [0, 0, 1, 2, 1, 0, 0]])),
    "negative grid [-2.5, 0.5]": (-2.5, 0.5, np.array([[0, 2, 4, 2, 0, 1, 0]])),
}

for name, (a, b, v) in cases.items():
    print(name)
    P = landscape(a, b, v)
    Pf = landscape(a, b, v.astype(float))
    for p in (1, 2, 3, 2.5):
        ref = reference_norm(a, b, v, p)
        assert abs(brute_norm(a, b, v, p) - ref) <= 1e-5 * ref, "reference is off"
        check(f"p={p}: ||P||_p vs integral", float(P.p_norm(p=p)), ref)
        check(f"p={p}: integer vs float samples", float(P.p_norm(p=p)), float(Pf.p_norm(p=p)))
        check(f"p={p}: homogeneity ||3P|| = 3||P||", float((3 * P).p_norm(p=p)), 3 * ref)

# difference of two integer-sampled landscapes: changes sign, this is what distances / tests use
print("difference of two landscapes on [0, 3]")
a, b = 0.0, 3.0
v1 = np.array([[0, 2, 4, 2, 0, 0, 0]])
v2 = np.array([[0, 0, 1, 3, 5, 3, 0]])
D = landscape(a, b, v1) - landscape(a, b, v2)
assert (D.values < 0).any() and (D.values > 0).any()
for p in (1, 2, 3):
    ref = reference_norm(a, b, v1 - v2, p)
    assert abs(brute_norm(a, b, v1 - v2, p) - ref) <= 1e-5 * ref, "reference is off"
    check(f"p={p}: ||P - Q||_p vs integral", float(D.p_norm(p=p)), ref)
    n1 = float(landscape(a, b, v1).p_norm(p=p))
    n2 = float(landscape(a, b, v2).p_norm(p=p))
    check(f"p={p}: ||P|| vs integral", n1, reference_norm(a, b, v1, p))
    check(f"p={p}: ||Q|| vs integral", n2, reference_norm(a, b, v2, p))
    tri = float(D.p_norm(p=p)) <= n1 + n2 + 1e-9
    print(f"  {'ok  ' if tri else 'BAD '} p={p}: triangle inequality ||P - Q|| <= ||P|| + ||Q||")
    if not tri:
        failures.append(f"triangle p={p}")
Z = landscape(a, b, v1) - landscape(a, b, v1)
check("||P - P||_2 = 0", float(Z.p_norm(p=2)), 0.0)

if failures:
    print(f"FAIL ({len(failures)} checks failed)")
    sys.exit(1)
print("PASS")
sys.exit(0)
