"""Property C04: every pixel of a persistence image is the sum over the diagram's points of
weight(point) * (mass the kernel, centred at the point in BIRTH-PERSISTENCE coordinates, puts on the pixel).

The pixel masses are recomputed here independently of persim (scipy.stats.norm / multivariate_normal,
exact rectangle overlap for the box kernel) and compared with PersistenceImager.transform().

Run from inside the tree under test:
    cd /tmp/wt_V04 && PYTHONPATH=/tmp/wt_V04 /venv/bin/python /tmp/ref_V04/demo.py
Prints PASS and exits 0 if all pixels agree, prints FAIL and exits 1 otherwise.
"""
import sys
import warnings

import matplotlib

matplotlib.use("Agg")
import numpy as np
from scipy.stats import multivariate_normal, norm

warnings.simplefilter("ignore")

from persim import PersistenceImager

# a diagram in birth-death coordinates (the usual output of ripser & co.)
DGM_BD = np.array([[0.20, 0.90], [0.55, 0.80], [0.10, 1.40], [0.70, 1.00]])
# the same pairs in birth-persistence coordinates
DGM_BP = np.column_stack((DGM_BD[:, 0], DGM_BD[:, 1] - DGM_BD[:, 0]))

BIRTH_RANGE = (0.0, 1.0)
PERS_RANGE = (0.0, 1.5)
PIXEL = 0.25


def edges(lo, hi, size):
    n = int(round((hi - lo) / size))
    return lo + size * np.arange(n + 1)


B_EDGES = edges(*BIRTH_RANGE, PIXEL)
P_EDGES = edges(*PERS_RANGE, PIXEL)


def mass_gaussian(mu, cov):
    """Mass of N(mu, cov) on every pixel, by inclusion-exclusion of an independent CDF."""
    cov = np.asarray(cov, dtype=float)
    if cov[0, 1] == 0.0:
        fb = norm.cdf(B_EDGES, loc=mu[0], scale=np.sqrt(cov[0, 0]))
        fp = norm.cdf(P_EDGES, loc=mu[1], scale=np.sqrt(cov[1, 1]))
        return np.outer(np.diff(fb), np.diff(fp))
    bb, pp = np.meshgrid(B_EDGES, P_EDGES, indexing="ij")
    pts = np.column_stack((bb.ravel(), pp.ravel()))
    mvn = multivariate_normal(mean=mu, cov=cov, abseps=1e-9, releps=1e-9, maxpts=2000000)
    cdf = mvn.cdf(pts).reshape(bb.shape)
    return cdf[1:, 1:] - cdf[:-1, 1:] - cdf[1:, :-1] + cdf[:-1, :-1]


def mass_box(mu, width, height):
    """Mass of the uniform box of the given size centred at mu on every pixel (exact overlap)."""

    def overlap(e, c, w):
        lo = np.maximum(e[:-1], c - w / 2)
        hi = np.minimum(e[1:], c + w / 2)
        return np.maximum(hi - lo, 0.0) / w

    return np.outer(overlap(B_EDGES, mu[0], width), overlap(P_EDGES, mu[1], height))


def w_persistence(p, n=1.0):
    return p**n


def w_ramp(p, low=0.0, high=1.0, start=0.0, end=1.0):
    return np.where(p < start, low, np.where(p > end, high, (p - start) * (high - low) / (end - start) + low))


CASES = [
    # name, kernel, kernel_params, mass function, weight, weight_params, weight function, tolerance
    ("isotropic gaussian (scalar)", "gaussian", {"sigma": 0.05},
     lambda mu: mass_gaussian(mu, [[0.05, 0], [0, 0.05]]),
     "persistence", {"n": 1.0}, lambda p: w_persistence(p, 1.0), 1e-9),
    ("isotropic gaussian (matrix)", "gaussian", {"sigma": [[0.02, 0.0], [0.0, 0.02]]},
     lambda mu: mass_gaussian(mu, [[0.02, 0], [0, 0.02]]),
     "persistence", {"n": 2.0}, lambda p: w_persistence(p, 2.0), 1e-9),
    ("axis-aligned gaussian", "gaussian", {"sigma": [[0.02, 0.0], [0.0, 0.08]]},
     lambda mu: mass_gaussian(mu, [[0.02, 0], [0, 0.08]]),
     "persistence", {"n": 1.0}, lambda p: w_persistence(p, 1.0), 1e-9),
    ("correlated gaussian r=0.6", "gaussian", {"sigma": np.array([[0.04, 0.03], [0.03, 0.0625]])},
     lambda mu: mass_gaussian(mu, [[0.04, 0.03], [0.03, 0.0625]]),
     "linear_ramp", {"low": 0.0, "high": 2.0, "start": 0.0, "end": 1.0},
     lambda p: w_ramp(p, 0.0, 2.0, 0.0, 1.0), 1e-5),
    ("uniform box", "uniform", {"width": 0.3, "height": 0.4},
     lambda mu: mass_box(mu, 0.3, 0.4),
     "persistence", {"n": 1.0}, lambda p: w_persistence(p, 1.0), 1e-9),
]

failures = 0
for name, kernel, kparams, mass, weight, wparams, wfun, tol in CASES:
    expected = np.zeros((len(B_EDGES) - 1, len(P_EDGES) - 1))
    for b, p in DGM_BP:
        expected += wfun(p) * mass((b, p))

    imgr = PersistenceImager(
        birth_range=BIRTH_RANGE, pers_range=PERS_RANGE, pixel_size=PIXEL,
        kernel=kernel, kernel_params=kparams, weight=weight, weight_params=wparams,
    )
    assert imgr.resolution == expected.shape, (imgr.resolution, expected.shape)
    np.testing.assert_allclose(imgr._bpnts, B_EDGES, atol=1e-12)
    np.testing.assert_allclose(imgr._ppnts, P_EDGES, atol=1e-12)

    runs = {
        "birth-death input, skew=True": imgr.transform(DGM_BD, skew=True),
        "birth-death input, default skew": imgr.transform(DGM_BD),
        "birth-persistence input, skew=False": imgr.transform(DGM_BP, skew=False),
        "list of two diagrams, skew=True": imgr.transform([DGM_BD[:2], DGM_BD], skew=True)[1],
    }
    for how, img in runs.items():
        err = float(np.max(np.abs(img - expected)))
        ok = img.shape == expected.shape and err <= tol
        print("%-28s | %-36s | max pixel error %.3e  %s" % (name, how, err, "ok" if ok else "WRONG"))
        if not ok:
            failures += 1

if failures:
    print("FAIL: %d image(s) are not the weighted kernel mass over the pixels" % failures)
    sys.exit(1)
print("PASS")
sys.exit(0)
