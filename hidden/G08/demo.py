"""C08 demo: grid landscapes stay within half a step of the true landscape.

Run from inside the worktree so that the worktree's persim is imported:
    cd /tmp/wt_G08 && PYTHONPATH=/tmp/wt_G08 /venv/bin/python /tmp/ref_G08/demo.py
Prints PASS / exits 0 when the property holds, FAIL / exits 1 otherwise.
"""
import contextlib
import io
import sys

import numpy as np

from persim import PersLandscapeApprox


def true_landscape(dgm, grid, depth):
    """Exact landscape values lambda_k(x) for k < depth at the grid points."""
    tents = np.minimum(grid[None, :] - dgm[:, [0]], dgm[:, [1]] - grid[None, :])
    tents = np.clip(tents, 0.0, None)
    ranked = -np.sort(-tents, axis=0)
    out = np.zeros((depth, grid.size))
    rows = min(depth, ranked.shape[0])
    out[:rows] = ranked[:rows]
    return out


def worst_error(dgm, start, stop, num_steps):
    """max |approx - true| in units of the grid step (missing depths count as 0)."""
    dgm = np.asarray(dgm, dtype=float)
    with contextlib.redirect_stdout(io.StringIO()):  # hide "Bad choice of grid"
        pla = PersLandscapeApprox(
            dgms=[dgm], hom_deg=0, start=start, stop=stop, num_steps=num_steps
        )
    grid, step = np.linspace(start, stop, num_steps, retstep=True)
    depth = len(dgm)
    approx = np.zeros((depth, num_steps))
    vals = np.asarray(pla.values)
    if vals.dtype.kind == "f":  # otherwise: no depth returned at all
        approx[: vals.shape[0]] = vals[:depth]
    return np.max(np.abs(approx - true_landscape(dgm, grid, depth))) / step


failures = []

# 1. a short bar (shorter than a grid step) listed before two long ones;
#    this is how ripser orders H0: by increasing death
case1 = ([[0.0, 0.3], [1.0, 5.0], [2.0, 8.0]], 0.0, 10.0, 11)
# 2. all end-points on the grid, one bar only one step long -> must be exact
case2 = ([[3.0, 4.0], [0.0, 6.0], [2.0, 10.0]], 0.0, 10.0, 11)
# 3. off-grid end-points, noise bars interleaved with features
case3 = (
    [[0.1, 0.35], [0.2, 4.7], [1.15, 1.4], [1.3, 7.9], [2.0, 2.2], [3.1, 9.6]],
    0.0,
    10.0,
    41,
)

for name, (dgm, start, stop, n), tol in [
    ("short bar first", case1, 0.5),
    ("on-grid, unit bar", case2, 0.0),
    ("interleaved noise", case3, 0.5),
]:
    err = worst_error(dgm, start, stop, n)
    ok = err <= tol + 1e-9
    print(f"{name:20s} worst error = {err:.3f} steps (allowed {tol}) {'ok' if ok else 'VIOLATION'}")
    if not ok:
        failures.append(name)

# 4. random ripser-like diagrams: many short bars, a few long ones
rng = np.random.default_rng(8)
worst = 0.0
for _ in range(200):
    nb = int(rng.integers(1, 12))
    births = rng.uniform(0.0, 6.0, nb)
    lengths = np.where(rng.random(nb) < 0.5, rng.uniform(0.0, 0.3, nb), rng.uniform(0.5, 4.0, nb))
    dgm = np.c_[births, births + lengths]
    n = int(rng.integers(5, 60))
    worst = max(worst, worst_error(dgm, 0.0, 10.0, n))
ok = worst <= 0.5 + 1e-9
print(f"{'random diagrams':20s} worst error = {worst:.3f} steps (allowed 0.5) {'ok' if ok else 'VIOLATION'}")
if not ok:
    failures.append("random diagrams")

if failures:
    print("FAIL")
    sys.exit(1)
print("PASS")
sys.exit(0)
