"""Demo for property C09 (landscape arithmetic is pointwise and leaves operands untouched).

Exact landscapes in homological degree 1 are negated, scaled, divided, subtracted and
linearly combined; every result is compared, depth by depth, with the pointwise
operation on the piecewise-linear functions of the operands (a missing depth is the
zero function), must live in the homological degree of its operands, and the operands
must be unchanged afterwards.

Run from inside the worktree:
    cd /tmp/wt_U09 && PYTHONPATH=/tmp/wt_U09 /venv/bin/python /tmp/ref_U09/demo.py
Prints PASS and exits 0 when the property holds, prints FAIL and exits 1 otherwise.
"""
import copy
import sys

import numpy as np

from persim import PersLandscapeExact


def evaluate(pairs, xs):
    """The piecewise-linear function through `pairs`, zero outside of its support."""
    px = np.array([p[0] for p in pairs], dtype=float)
    py = np.array([p[1] for p in pairs], dtype=float)
    return np.interp(xs, px, py, left=0.0, right=0.0)


def depth_values(pl, xs, depths):
    rows = [evaluate(d, xs) for d in pl.critical_pairs]
    rows += [np.zeros_like(xs)] * (depths - len(rows))
    return np.array(rows)


def snapshot(pl):
    return (pl.hom_deg, copy.deepcopy(pl.critical_pairs))


def main():
    failures = []
    rng = np.random.default_rng(9)
    xs = np.linspace(-1.0, 12.0, 521)

    for hom_deg in (0, 1):
        for trial in range(6):
            dgms = []
            for _ in range(2):
                births = rng.uniform(0, 6, size=rng.integers(1, 5))
                dgms.append(np.stack([births, births + rng.uniform(0.5, 4, size=births.size)], axis=1))
            other = []
            for _ in range(2):
                births = rng.uniform(0, 6, size=rng.integers(1, 5))
                other.append(np.stack([births, births + rng.uniform(0.5, 4, size=births.size)], axis=1))
            P = PersLandscapeExact(dgms=dgms, hom_deg=hom_deg)
            Q = PersLandscapeExact(dgms=other, hom_deg=hom_deg)
            before = snapshot(P), snapshot(Q)
            depths = max(len(P.critical_pairs), len(Q.critical_pairs))
            fP, fQ = depth_values(P, xs, depths), depth_values(Q, xs, depths)

            cases = {
                "-P": (lambda: -P, -fP),
                "3 * P": (lambda: 3 * P, 3 * fP),
                "P * -0.5": (lambda: P * -0.5, -0.5 * fP),
                "P / 4": (lambda: P / 4, fP / 4),
                "P + Q": (lambda: P + Q, fP + fQ),
                "P - Q": (lambda: P - Q, fP - fQ),
                "2 * P + Q": (lambda: 2 * P + Q, 2 * fP + fQ),
                "(P + Q) / 2": (lambda: (P + Q) / 2, (fP + fQ) / 2),
                "-(P - Q) + P": (lambda: -(P - Q) + P, fQ),
            }
            for name, (op, expected) in cases.items():
                label = f"hom_deg={hom_deg} trial={trial} {name}"
                try:
                    R = op()
                except Exception as e:  # noqa: BLE001
                    failures.append(f"{label}: raised {type(e).__name__}: {e}")
                    continue
                got = depth_values(R, xs, max(depths, len(R.critical_pairs)))
                if got.shape != expected.shape or not np.allclose(got, expected, atol=1e-9):
                    failures.append(f"{label}: values are not the pointwise result")
                if R.hom_deg != hom_deg:
                    failures.append(
                        f"{label}: result is in homological degree {R.hom_deg}, operands in {hom_deg}"
                    )
            if (snapshot(P), snapshot(Q)) != before:
                failures.append(f"hom_deg={hom_deg} trial={trial}: an operand was modified")

    # mismatched degrees must still be rejected, also after a scalar operation
    A = PersLandscapeExact(critical_pairs=[[[0, 0], [1, 1], [2, 0]]], hom_deg=1)
    B = PersLandscapeExact(critical_pairs=[[[0, 0], [2, 2], [4, 0]]], hom_deg=0)
    for name, op in {"A + B": lambda: A + B, "2 * A + B": lambda: 2 * A + B, "-A + B": lambda: -A + B}.items():
        try:
            op()
        except ValueError:
            pass
        else:
            failures.append(f"{name}: landscapes of degrees 1 and 0 were combined without an error")

    if failures:
        for f in failures[:12]:
            print("  -", f)
        if len(failures) > 12:
            print(f"  ... and {len(failures) - 12} more")
        print("FAIL")
        return 1
    print("PASS")
    return 0


if __name__ == "__main__":
    sys.exit(main())
