"""C18 demo: a fit learns only from the data of the most recent fit and from
the parameters the user fixed explicitly.

A PersistenceLandscaper whose grid end-point the user fixed to 0 (a perfectly
ordinary choice: filtrations start at 0) must keep that end-point through
fit(); with the whole grid fixed, fit() has nothing to learn, so the output of
transform() may not depend on what the estimator was fitted on.

Run from inside the worktree:
    cd /tmp/wt_L18 && PYTHONPATH=/tmp/wt_L18 /venv/bin/python /tmp/ref_L18/demo.py
Exits 0 / prints PASS when the property holds, exits 1 / prints FAIL otherwise.
"""
import sys
import warnings

import matplotlib

matplotlib.use("Agg")
warnings.simplefilter("ignore")

import numpy as np

import persim
from persim import PersistenceImager, PersistenceLandscaper

failures = []


def check(cond, msg):
    if not cond:
        failures.append(msg)


# diagrams (H0, H1); no pair is born at 0 and none dies at 0
A = [np.array([[1.0, 3.0], [2.0, 5.0]]), np.array([[1.5, 4.0]])]
B = [np.array([[0.5, 2.0], [1.0, 4.5]]), np.array([[2.0, 3.0], [2.5, 6.0]])]
X = [np.array([[1.0, 4.0], [2.0, 3.0]]), np.array([[1.0, 5.0]])]

# --- 1. the whole grid fixed by the user: fit learns nothing -----------------
for start, stop in [(0, 6.0), (0.0, 6.0)]:
    outs = []
    for history in ([A], [B], [A, B], [X]):
        pl = PersistenceLandscaper(hom_deg=0, start=start, stop=stop, num_steps=7)
        for data in history:
            pl.fit(data)
            check(
                pl.start == start and pl.stop == stop,
                "user-fixed grid (start=%r, stop=%r) became (%r, %r) after fit"
                % (start, stop, pl.start, pl.stop),
            )
        outs.append(pl.transform(X))
    for o in outs[1:]:
        check(
            np.array_equal(outs[0], o),
            "grid fixed to (%r, %r) but transform(X) depends on the fit history"
            % (start, stop),
        )

# --- 2. one end fixed to 0, the other learnt from the (only) fit -------------
pl = PersistenceLandscaper(hom_deg=1, start=0, num_steps=6)
pl.fit(B)
check(pl.start == 0, "user-fixed start=0 replaced by %r" % (pl.start,))
check(pl.stop == 6.0, "stop should be learnt as 6.0, got %r" % (pl.stop,))

neg = [np.array([[-5.0, -2.0], [-4.0, -1.0]])]
pl = PersistenceLandscaper(hom_deg=0, stop=0, num_steps=6)
pl.fit(neg)
check(pl.stop == 0, "user-fixed stop=0 replaced by %r" % (pl.stop,))
check(pl.start == -5.0, "start should be learnt as -5.0, got %r" % (pl.start,))

# --- 3. fit + transform == fit_transform (both transformers) -----------------
p1 = PersistenceLandscaper(hom_deg=0, start=0, stop=6.0, num_steps=7, flatten=True)
p2 = PersistenceLandscaper(hom_deg=0, start=0, stop=6.0, num_steps=7, flatten=True)
check(
    np.array_equal(p1.fit(A).transform(A), p2.fit_transform(A)),
    "landscaper: fit+transform != fit_transform",
)
check((p1.start, p1.stop) == (p2.start, p2.stop), "landscaper: fitted grids differ")

dgms = [np.array([[0.5, 2.0], [1.0, 4.5]]), np.array([[2.0, 3.0], [2.5, 6.0], [0.0, 1.0]])]
i1 = PersistenceImager(pixel_size=0.5)
i2 = PersistenceImager(pixel_size=0.5)
i1.fit([np.array([[10.0, 30.0]])])  # an earlier fit that must be forgotten
i1.fit(dgms)
a = i1.transform(dgms)
b = i2.fit_transform(dgms)
check(
    len(a) == len(b) == 2 and all(np.array_equal(x, y) for x, y in zip(a, b)),
    "imager: refit+transform != fit_transform",
)
check(
    (i1.birth_range, i1.pers_range, i1.resolution)
    == (i2.birth_range, i2.pers_range, i2.resolution),
    "imager: refit remembers the earlier fit",
)

print("persim from", persim.__file__)
if failures:
    for f in dict.fromkeys(failures):
        print("  -", f)
    print("FAIL")
    sys.exit(1)
print("PASS")
sys.exit(0)
