"""
C10 demo: the p-norm of a landscape equals the p-th root of the sum over depths of
the integral of |lambda_k|^p -- also for an exact landscape that was constructed
lazily (compute=False) and whose first use is the norm.

Exits 0 / prints PASS when the property holds, exits 1 / prints FAIL otherwise.
"""
import sys

import matplotlib

matplotlib.use("Agg")
import numpy as np

from persim.landscapes import PersLandscapeExact


def reference_norm(functions, p):
    """p-th root of sum_k int |f_k|^p, by composite Gauss-Legendre on each linear piece
    (split at the root of a sign-changing piece, so every panel is smooth)."""
    nodes, weights = np.polynomial.legendre.leggauss(40)
    total = 0.0
    for f in functions:
        for (x0, y0), (x1, y1) in zip(f, f[1:]):
            cuts = [x0, x1]
            if y0 * y1 < 0:
                cuts = [x0, x0 + (x1 - x0) * (-y0) / (y1 - y0), x1]
            for a, b in zip(cuts, cuts[1:]):
                xs = 0.5 * (b - a) * nodes + 0.5 * (a + b)
                ys = y0 + (y1 - y0) * (xs - x0) / (x1 - x0)
                total += 0.5 * (b - a) * np.sum(weights * np.abs(ys) ** p)
    return total ** (1.0 / p)


def main():
    dgm_a = [np.array([[0.0, 4.0], [1.0, 3.0], [2.5, 6.0]])]
    dgm_b = [np.array([[0.5, 5.0], [1.0, 2.0]])]
    failures = []

    def check(label, got, want):
        ok = np.isfinite(got) and abs(got - want) <= 1e-9 * max(1.0, abs(want))
        print(f"{'ok ' if ok else 'BAD'} {label}: got {got!r}, expected {want!r}")
        if not ok:
            failures.append(label)

    for p in (1, 2, 2.5, 7):
        # eager construction (the default)
        eager = PersLandscapeExact(dgms=dgm_a, hom_deg=0)
        want = reference_norm(eager.critical_pairs, p)
        check(f"eager  p={p}", eager.p_norm(p=p), want)

        # lazy construction: the norm is the first thing asked of the landscape
        lazy = PersLandscapeExact(dgms=dgm_a, hom_deg=0, compute=False)
        check(f"lazy   p={p}", lazy.p_norm(p=p), want)

        # a difference of two landscapes (sign changes), both operands lazy
        P = PersLandscapeExact(dgms=dgm_a, hom_deg=0, compute=False)
        Q = PersLandscapeExact(dgms=dgm_b, hom_deg=0, compute=False)
        D = P - Q
        check(f"diff   p={p}", D.p_norm(p=p), reference_norm(D.critical_pairs, p))

        # norm of a lazily built landscape must agree with its sup-norm ordering:
        # ||f||_p > 0 whenever sup|f| > 0 (definiteness)
        lazy2 = PersLandscapeExact(dgms=dgm_b, hom_deg=0, compute=False)
        n = lazy2.p_norm(p=p)
        s = lazy2.sup_norm()
        ok = (n > 0) == (s > 0)
        print(f"{'ok ' if ok else 'BAD'} definiteness p={p}: p_norm={n!r}, sup_norm={s!r}")
        if not ok:
            failures.append(f"definiteness p={p}")

    if failures:
        print("FAIL:", ", ".join(failures))
        return 1
    print("PASS")
    return 0


if __name__ == "__main__":
    sys.exit(main())
