"""Property C04 demo: each persistence-image pixel equals the sum over the diagram's points of
weight(point) * (probability mass the kernel centred at the point, in birth-persistence
coordinates, puts on the pixel's square) - for every way of calling transform(): diagrams given in
birth-death coordinates (skew=True) or already in birth-persistence coordinates (skew=False),
computed serially (n_jobs=None) or through joblib (n_jobs=1, 2).

The reference mass is computed independently of persim.  For a bivariate normal with mean
(mb, mp) and covariance [[vb, c], [c, vp]]

    P(b0<B<b1, p0<P<p1) = int_{b0}^{b1} phi_B(u) * [Phi((p1-m(u))/s) - Phi((p0-m(u))/s)] du,
    m(u) = mp + c/vb*(u-mb),  s^2 = vp - c^2/vb,

evaluated with a 96-node Gauss-Legendre rule.

Exit 0 / PASS when all pixels agree to 1e-8, exit 1 / FAIL otherwise.
"""
import sys
import warnings

import matplotlib
matplotlib.use("Agg")
import numpy as np
from scipy.special import ndtr

warnings.filterwarnings("ignore")
from persim import PersistenceImager

TOL = 1e-8
NODES, NODE_WTS = np.polynomial.legendre.leggauss(96)


def box_mass(b0, b1, p0, p1, mean, cov):
    mb, mp = mean
    vb, c, vp = cov[0][0], cov[0][1], cov[1][1]
    u = 0.5 * (b1 - b0) * NODES + 0.5 * (b1 + b0)
    dens_b = np.exp(-0.5 * (u - mb) ** 2 / vb) / np.sqrt(2 * np.pi * vb)
    cond_mean = mp + c / vb * (u - mb)
    cond_sd = np.sqrt(vp - c * c / vb)
    inner = ndtr((p1 - cond_mean) / cond_sd) - ndtr((p0 - cond_mean) / cond_sd)
    return 0.5 * (b1 - b0) * np.sum(NODE_WTS * dens_b * inner)


def reference_image(imgr, dgm_bp, cov, n):
    """Image of a diagram given in birth-persistence coordinates, weight = persistence ** n."""
    nb, npers = imgr.resolution
    h = imgr.pixel_size
    b_lo, p_lo = imgr.birth_range[0], imgr.pers_range[0]
    img = np.zeros((nb, npers))
    for birth, pers in dgm_bp:
        for i in range(nb):
            for j in range(npers):
                img[i, j] += pers ** n * box_mass(b_lo + i * h, b_lo + (i + 1) * h,
                                                  p_lo + j * h, p_lo + (j + 1) * h,
                                                  (birth, pers), cov)
    return img


def main():
    # two diagrams in birth-death coordinates and the same diagrams in birth-persistence coordinates
    dgms_bd = [np.array([[0.2, 0.9], [0.6, 1.1], [0.45, 1.6], [1.4, 1.7]]),
               np.array([[0.1, 1.3], [1.0, 1.25]])]
    dgms_bp = [np.column_stack([d[:, 0], d[:, 1] - d[:, 0]]) for d in dgms_bd]

    kernels = {
        "isotropic sigma=0.09": [[0.09, 0.0], [0.0, 0.09]],
        "correlated r=0.6": [[0.09, 0.6 * np.sqrt(0.09 * 0.04)], [0.6 * np.sqrt(0.09 * 0.04), 0.04]],
    }
    ok = True
    worst = 0.0
    for kname, cov in kernels.items():
        imgr = PersistenceImager(birth_range=(0.0, 2.0), pers_range=(0.0, 1.5), pixel_size=0.25,
                                 weight_params={"n": 2.0}, kernel_params={"sigma": cov})
        refs = [reference_image(imgr, d, cov, 2.0) for d in dgms_bp]
        for skew, dgms in ((True, dgms_bd), (False, dgms_bp)):
            for n_jobs in (None, 1, 2):
                imgs = imgr.transform(dgms, skew=skew, n_jobs=n_jobs)
                single = imgr.transform(dgms[0], skew=skew, n_jobs=n_jobs)
                err = max(float(np.max(np.abs(img - ref))) for img, ref in zip(imgs, refs))
                err = max(err, float(np.max(np.abs(single - refs[0]))))
                worst = max(worst, err)
                good = err <= TOL and len(imgs) == len(refs)
                ok = ok and good
                print("%-22s skew=%-5s n_jobs=%-4s max |pixel - integral| = %.3e  %s"
                      % (kname, skew, n_jobs, err, "ok" if good else "WRONG"))
    print("worst deviation: %.3e (tolerance %.0e)" % (worst, TOL))
    if ok:
        print("PASS")
        return 0
    print("FAIL")
    return 1


if __name__ == "__main__":
    sys.exit(main())
