"""Persistent entropy must be the Shannon entropy of the normalised bar lengths
at every scale: equal bars give log n, and rescaling a barcode changes nothing."""
import sys
import warnings

import numpy as np

warnings.simplefilter("ignore")
from persim.persistent_entropy import persistent_entropy


def shannon(dgm):
    l = dgm[:, 1] - dgm[:, 0]
    p = l / l.sum()
    return float(-(p * np.log(p)).sum())


failures = []


def check(label, got, want):
    ok = np.allclose(got, want, rtol=1e-9, atol=1e-12)
    print("%-44s got %-24r want %r" % (label, np.asarray(got).tolist(), np.asarray(want).tolist()))
    if not ok:
        failures.append(label)


base = np.array([[0.0, 1.0], [0.5, 2.5], [1.0, 4.0], [2.0, 2.5]])
equal = np.array([[0.0, 1.0], [3.0, 4.0], [-2.0, -1.0]])

for scale in [1.0, 1e-3, 1e-6, 1e-9, 1e-12]:
    check("scale %g: entropy" % scale, persistent_entropy(base * scale), [shannon(base)])
    check("scale %g: equal bars -> log 3" % scale, persistent_entropy(equal * scale), [np.log(3)])
    check("scale %g: normalised equal bars -> 1" % scale,
          persistent_entropy(equal * scale, normalize=True), [1.0])

# list of diagrams, one of them tiny, with an infinite bar replaced by a tiny value
tiny = np.array([[0.0, 1e-10], [0.0, 3e-10], [1e-10, np.inf]])
check("list + val_inf, tiny diagram",
      persistent_entropy([base, tiny], keep_inf=True, val_inf=3e-10),
      [shannon(base), shannon(np.array([[0.0, 1.0], [0.0, 3.0], [1.0, 3.0]]))])

if failures:
    print("FAIL:", "; ".join(failures))
    sys.exit(1)
print("PASS")
sys.exit(0)
