"""C13 demo: with zero covariance the Gaussian kernel is the product of the two marginal normal CDFs,
for every pair of positive variances (not only unit ones), and agrees with a reference bivariate normal CDF.

Run from inside the worktree:
    cd /tmp/wt_U13 && PYTHONPATH=/tmp/wt_U13 /venv/bin/python /tmp/ref_U13/demo.py
"""
import sys
import numpy as np
from scipy.stats import norm, multivariate_normal
from persim import images_kernels as K

failures = []
x = np.linspace(-4.0, 6.0, 21)
y = np.linspace(5.0, -3.0, 21)
mu = np.array([0.7, 1.1])

for vx, vy in [(1.0, 1.0), (4.0, 0.25), (0.01, 100.0), (2.0, 2.0)]:
    sigma = np.array([[vx, 0.0], [0.0, vy]])
    got = K.gaussian(x, y, mu=mu, sigma=sigma)
    marg = norm.cdf(x, loc=mu[0], scale=np.sqrt(vx)) * norm.cdf(y, loc=mu[1], scale=np.sqrt(vy))
    ref = multivariate_normal(mean=mu, cov=sigma).cdf(np.column_stack([x, y]))
    err = max(np.max(np.abs(got - marg)), np.max(np.abs(got - ref)))
    print("variances (%g, %g): max |kernel - reference| = %.3e" % (vx, vy, err))
    if not err < 1e-7:
        failures.append(("gaussian", vx, vy, err))

    # the same through the named entry point, and continuous with a tiny covariance (correlated algorithm)
    direct = K.sbvn_cdf(x, y, mu_x=mu[0], mu_y=mu[1], sigma_x=vx, sigma_y=vy)
    nearby = K.bvn_cdf(x, y, mu_x=mu[0], mu_y=mu[1], sigma_xx=vx, sigma_yy=vy, sigma_xy=1e-12 * np.sqrt(vx * vy))
    jump = np.max(np.abs(direct - nearby))
    print("    sbvn_cdf vs bvn_cdf at correlation 1e-12: %.3e" % jump)
    if not jump < 1e-7:
        failures.append(("sbvn_cdf", vx, vy, jump))

if failures:
    print("FAIL", failures)
    sys.exit(1)
print("PASS")
sys.exit(0)
