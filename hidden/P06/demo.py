"""
C06 demo: the matching returned by persim.wasserstein(..., matching=True) must
certify the reported distance - also when the call is not the first one made
in the process.

Run from inside the worktree:
    cd /tmp/wt_P06 && PYTHONPATH=/tmp/wt_P06 /venv/bin/python /tmp/ref_P06/demo.py
Prints PASS / exits 0 when every certificate holds, FAIL / exits 1 otherwise.
"""
import sys
import warnings

import numpy as np

warnings.filterwarnings("ignore", category=SyntaxWarning)
from persim import wasserstein  # noqa: E402


def pair_cost(dgm1, dgm2, i, j):
    """Cost of one row under the Wasserstein rule: L2 between two points,
    perpendicular (L2) distance to the diagonal for an unmatched point."""
    if i >= 0 and j >= 0:
        return float(np.linalg.norm(dgm1[i, :2] - dgm2[j, :2]))
    p = dgm1[i] if i >= 0 else dgm2[j]
    return float((p[1] - p[0]) / np.sqrt(2))


def check(dgm1, dgm2, label):
    """All clauses of the property for one pair of (non-empty) diagrams."""
    problems = []
    d_plain = wasserstein(dgm1, dgm2)
    d, m = wasserstein(dgm1, dgm2, matching=True)
    if not np.isclose(d, d_plain, rtol=1e-9, atol=1e-12):
        problems.append("distance with matching %r != without %r" % (d, d_plain))
    if sorted(int(i) for i in m[:, 0] if i >= 0) != list(range(len(dgm1))):
        problems.append("first diagram not covered exactly once: %r" % m[:, 0].tolist())
    if sorted(int(j) for j in m[:, 1] if j >= 0) != list(range(len(dgm2))):
        problems.append("second diagram not covered exactly once: %r" % m[:, 1].tolist())
    for i, j, c in m:
        i, j = int(i), int(j)
        if i < 0 and j < 0:
            problems.append("diagonal-diagonal row present")
            continue
        if i >= len(dgm1) or j >= len(dgm2):
            continue
        want = pair_cost(dgm1, dgm2, i, j)
        if not np.isclose(c, want, rtol=1e-9, atol=1e-12):
            problems.append("row (%d, %d): cost %r, should be %r" % (i, j, c, want))
    if not np.isclose(m[:, 2].sum(), d, rtol=1e-9, atol=1e-12):
        problems.append("sum of row costs %r != distance %r" % (m[:, 2].sum(), d))
    # independent value of the distance for these small diagrams: brute force
    best = brute_force(dgm1, dgm2)
    if not np.isclose(d, best, rtol=1e-9, atol=1e-12):
        problems.append("distance %r, brute force optimum %r" % (d, best))
    for p in problems:
        print("  [%s] %s" % (label, p))
    return not problems


def brute_force(dgm1, dgm2):
    """Optimal partial matching cost by enumeration (tiny diagrams only)."""
    from itertools import permutations

    M, N = len(dgm1), len(dgm2)
    diag1 = [pair_cost(dgm1, dgm2, i, -1) for i in range(M)]
    diag2 = [pair_cost(dgm1, dgm2, -1, j) for j in range(N)]
    best = np.inf
    # assign every point of dgm1 either to a distinct point of dgm2 or to None
    slots = list(range(N)) + [None] * M
    seen = set()
    for perm in permutations(slots, M):
        if perm in seen:
            continue
        seen.add(perm)
        used = {j for j in perm if j is not None}
        c = sum(diag1[i] if j is None else pair_cost(dgm1, dgm2, i, j)
                for i, j in enumerate(perm))
        c += sum(diag2[j] for j in range(N) if j not in used)
        best = min(best, c)
    return best


def main():
    A = np.array([[0.0, 4.0], [1.0, 3.0], [2.0, 7.0]])
    B = np.array([[0.5, 4.5], [1.0, 2.0], [3.0, 6.0]])
    C = np.array([[0.0, 5.0], [2.0, 3.0]])
    E = np.array([[0.2, 5.1], [1.0, 1.5], [4.0, 6.0], [6.0, 9.0]])

    ok = True
    # a 3-vs-3 comparison, then a 2-vs-4 one, then back and with the roles swapped
    ok &= check(A, B, "A(3) vs B(3)")
    ok &= check(C, E, "C(2) vs E(4), after a 3-vs-3 call")
    ok &= check(E, C, "E(4) vs C(2), after a 2-vs-4 call")
    ok &= check(A, B, "A(3) vs B(3), after a 4-vs-2 call")
    ok &= check(A[:1], B, "A(1) vs B(3)")
    ok &= check(C, C, "C(2) vs C(2), after a 1-vs-3 call")

    print("PASS" if ok else "FAIL")
    return 0 if ok else 1


if __name__ == "__main__":
    sys.exit(main())
