"""Demo for property C08: grid landscapes stay within half a step of the true landscape.

Run from inside the tree under test so that its copy of persim is imported:
  cd /tmp/wt_M08 && PYTHONPATH=/tmp/wt_M08 /venv/bin/python /tmp/ref_M08/demo.py

Prints PASS and exits 0 when the property holds on the inputs below, prints FAIL
and exits 1 otherwise.  The inputs are nothing exotic: four or more bars that
overlap over a common stretch of the grid, and a degree-0 diagram with four deaths.
"""
import sys

import numpy as np

import matplotlib

matplotlib.use("Agg")

from persim.landscapes import PersLandscapeApprox, PersistenceLandscaper, death_vector


def true_landscape(dgm, grid, depths):
    """lambda_k(x) = k-th largest of max(0, min(x - b, d - x)), straight from the definition."""
    tents = np.maximum(
        0.0, np.minimum(grid[None, :] - dgm[:, [0]], dgm[:, [1]] - grid[None, :])
    )
    tents = -np.sort(-tents, axis=0)  # descending along the bars
    out = np.zeros((depths, grid.size))
    k = min(depths, tents.shape[0])
    out[:k] = tents[:k]
    return out, tents


problems = []


def check(name, dgm, start, stop, num_steps, exact):
    dgm = np.asarray(dgm, dtype=float)
    grid, step = np.linspace(start, stop, num_steps, retstep=True)
    P = PersLandscapeApprox(dgms=[dgm], hom_deg=0, start=start, stop=stop, num_steps=num_steps)
    vals = np.asarray(P.values, dtype=float)
    truth, tents = true_landscape(dgm, grid, vals.shape[0])
    tol = 1e-9 if exact else step / 2 + 1e-9
    err = np.abs(vals - truth).max()
    if err > tol:
        problems.append(f"{name}: sampled landscape off by {err:.4g} (allowed {tol:.4g})")
    # depths beyond those returned count as zero
    if tents.shape[0] > vals.shape[0] and tents[vals.shape[0]:].max() > tol:
        problems.append(f"{name}: a depth that was not returned is not ~0")
    # the transformer returns the very same samples, flattened on request
    T = PersistenceLandscaper(hom_deg=0, start=start, stop=stop, num_steps=num_steps, flatten=True)
    flat = T.fit_transform([dgm])
    if not np.array_equal(flat, vals.flatten()):
        problems.append(f"{name}: transformer output differs from PersLandscapeApprox")


# 1. four nested bars with integer endpoints on the integer grid: must be exact
check("nested-4 (on grid)", [[0, 10], [1, 9], [2, 8], [3, 7]], 0, 10, 11, exact=True)

# 2. four bars entering the same stretch from both sides, endpoints on the grid
check("crossing-4 (on grid)", [[0, 10], [4, 14], [2, 12], [6, 16]], 0, 16, 17, exact=True)

# 3. off-grid endpoints, many overlapping bars: within half a step
rng = np.random.default_rng(7)
for trial in range(20):
    n = int(rng.integers(4, 15))
    b = rng.uniform(-3.0, 0.0, n)
    d = rng.uniform(0.5, 4.0, n)
    dgm = np.column_stack([b, d])
    check(f"random-{trial} ({n} bars)", dgm, -3.5, 4.5, int(rng.integers(9, 60)), exact=False)

# 4. the death vector lists the deaths in non-increasing order
for deaths in ([5.0, 3.0, 4.0, 1.0], [2.0, 7.0, 1.0, 6.0, 3.0, 5.0, 4.0], list(rng.uniform(0, 1, 40))):
    dgm = np.column_stack([np.zeros(len(deaths)), deaths])
    dv = list(death_vector([dgm]))
    if sorted(dv) != sorted(deaths):
        problems.append(f"death_vector({deaths[:4]}...): not the deaths of the diagram")
    if any(x < y for x, y in zip(dv, dv[1:])):
        problems.append(f"death_vector({deaths[:4]}...) = {[float(v) for v in dv[:6]]}...: not non-increasing")

if problems:
    print("FAIL")
    for p in problems[:12]:
        print("  -", p)
    if len(problems) > 12:
        print(f"  ... and {len(problems) - 12} more")
    sys.exit(1)
print("PASS")
sys.exit(0)
