"""Demo for property C04: every pixel of a persistence image is the weighted kernel mass over that pixel's square.

Run from inside the worktree so that the worktree copy of persim is imported:
    cd /tmp/wt_P04 && PYTHONPATH=/tmp/wt_P04 /venv/bin/python /tmp/ref_P04/demo.py

For a handful of imager configurations (ranges / pixel sizes / kernels / weights) the image returned by
PersistenceImager.transform() is compared with an independently computed one: the pixel squares are derived
from the imager's PUBLIC geometry only (birth_range, pers_range, pixel_size: pixel (i, j) is the square
[b0 + i*ps, b0 + (i+1)*ps] x [p0 + j*ps, p0 + (j+1)*ps]), and the kernel mass of every square is integrated
with scipy (no persim kernel code is used for the reference).

Prints PASS and exits 0 if all images agree, prints FAIL and exits 1 otherwise.
"""
import sys
import warnings

warnings.filterwarnings("ignore")

import numpy as np
from scipy.integrate import quad
from scipy.stats import norm

from persim import PersistenceImager

warnings.filterwarnings("ignore")


# ----------------------------------------------------------------------------------------------------------
# independent reference
# ----------------------------------------------------------------------------------------------------------
def gaussian_mass(b_lo, b_hi, p_lo, p_hi, mu, cov):
    """P(b_lo < B < b_hi, p_lo < P < p_hi) for (B, P) ~ N(mu, cov)."""
    sb, sp = np.sqrt(cov[0][0]), np.sqrt(cov[1][1])
    r = cov[0][1] / (sb * sp)
    if r == 0.0:
        return (norm.cdf(b_hi, mu[0], sb) - norm.cdf(b_lo, mu[0], sb)) * (
            norm.cdf(p_hi, mu[1], sp) - norm.cdf(p_lo, mu[1], sp)
        )
    s_cond = sp * np.sqrt(1.0 - r * r)

    def integrand(b):
        m = mu[1] + r * sp / sb * (b - mu[0])
        return norm.pdf(b, mu[0], sb) * (norm.cdf(p_hi, m, s_cond) - norm.cdf(p_lo, m, s_cond))

    return quad(integrand, b_lo, b_hi, epsabs=1e-13, epsrel=1e-12, limit=200)[0]


def uniform_mass(b_lo, b_hi, p_lo, p_hi, mu, width, height):
    """Mass that the uniform density on the width x height box centred at mu puts on the rectangle."""
    ob = max(0.0, min(b_hi, mu[0] + width / 2) - max(b_lo, mu[0] - width / 2))
    op = max(0.0, min(p_hi, mu[1] + height / 2) - max(p_lo, mu[1] - height / 2))
    return ob * op / (width * height)


def reference_image(imager, dgm_bp, weight_fn, mass_fn):
    """Image implied by the imager's public geometry: pixel (i, j) covers a pixel_size x pixel_size square."""
    ps = imager.pixel_size
    b0, b1 = imager.birth_range
    p0, p1 = imager.pers_range
    nb = int(round((b1 - b0) / ps))
    npers = int(round((p1 - p0) / ps))
    img = np.zeros((nb, npers))
    for b, p in dgm_bp:
        w = weight_fn(b, p)
        for i in range(nb):
            for j in range(npers):
                img[i, j] += w * mass_fn(b0 + i * ps, b0 + (i + 1) * ps, p0 + j * ps, p0 + (j + 1) * ps, (b, p))
    return img


# ----------------------------------------------------------------------------------------------------------
# cases
# ----------------------------------------------------------------------------------------------------------
# birth-death diagram with points inside, on the border of and outside every imaged region used below
DGM = np.array([[0.3, 1.1], [1.4, 2.0], [2.6, 3.9], [0.0, 0.5], [-0.4, 2.7], [3.5, 4.1]])
DGM_BP = np.column_stack([DGM[:, 0], DGM[:, 1] - DGM[:, 0]])

ISO = {"sigma": 0.6}
DIAG = {"sigma": np.array([[0.5, 0.0], [0.0, 0.2]])}
CORR = {"sigma": np.array([[0.5, 0.25], [0.25, 0.4]])}
BOX = {"width": 1.3, "height": 0.7}


def cov_of(params):
    s = params["sigma"]
    if isinstance(s, (int, float)):
        return [[s, 0.0], [0.0, s]]
    return s


CASES = [
    # (label, constructor kwargs, setter sequence, kernel kind)
    ("default grid, isotropic", dict(pixel_size=0.5, birth_range=(0.0, 3.0), pers_range=(0.0, 2.0), kernel_params=ISO), [], "g"),
    ("pixel 0.75, correlated", dict(pixel_size=0.75, birth_range=(0.0, 3.0), pers_range=(0.0, 2.0), kernel_params=CORR), [], "g"),
    ("pixel 0.95, birth span 2.83, isotropic", dict(pixel_size=0.95, birth_range=(0.0, 2.83), pers_range=(0.0, 1.9), kernel_params=ISO), [], "g"),
    ("pixel 0.74, pers span 3.88, diagonal", dict(pixel_size=0.74, birth_range=(0.0, 2.96), pers_range=(0.0, 3.88), kernel_params=DIAG), [], "g"),
    ("pixel 0.61 then ranges set afterwards, uniform box", dict(pixel_size=0.61, kernel="uniform", kernel_params=BOX),
     [("birth_range", (-0.5, 3.66)), ("pers_range", (0.0, 1.8))], "u"),
    ("pixel size changed afterwards to 0.39, correlated", dict(pixel_size=0.5, birth_range=(0.5, 2.61), pers_range=(0.0, 2.0), kernel_params=CORR),
     [("pixel_size", 0.39)], "g"),
    ("linear_ramp weight, pixel 0.35, isotropic", dict(pixel_size=0.35, birth_range=(0.0, 1.4), pers_range=(0.0, 4.01), kernel_params=ISO,
                                                     weight="linear_ramp", weight_params={"low": 0.0, "high": 2.0, "start": 0.0, "end": 1.5}), [], "g"),
]


def main():
    ok = True
    for label, kwargs, setters, kind in CASES:
        imager = PersistenceImager(**kwargs)
        for name, val in setters:
            setattr(imager, name, val)

        if kwargs.get("weight") == "linear_ramp":
            wp = kwargs["weight_params"]

            def weight_fn(b, p, wp=wp):
                if p < wp["start"]:
                    return wp["low"]
                if p > wp["end"]:
                    return wp["high"]
                return (p - wp["start"]) * (wp["high"] - wp["low"]) / (wp["end"] - wp["start"]) + wp["low"]
        else:
            def weight_fn(b, p):
                return p

        if kind == "g":
            cov = cov_of(kwargs["kernel_params"])

            def mass_fn(bl, bh, pl, ph, mu, cov=cov):
                return gaussian_mass(bl, bh, pl, ph, mu, cov)
        else:
            kp = kwargs["kernel_params"]

            def mass_fn(bl, bh, pl, ph, mu, kp=kp):
                return uniform_mass(bl, bh, pl, ph, mu, kp["width"], kp["height"])

        got = np.asarray(imager.transform(DGM, skew=True))
        want = reference_image(imager, DGM_BP, weight_fn, mass_fn)

        if got.shape != want.shape:
            ok = False
            print("  [x] %-55s image is %s but birth_range=%s pers_range=%s pixel_size=%s describe %s pixels"
                  % (label, got.shape, np.round(imager.birth_range, 4), np.round(imager.pers_range, 4), imager.pixel_size, want.shape))
            # show that the pixels are not mass over pixel_size squares either
            n = min(got.shape[0], want.shape[0]), min(got.shape[1], want.shape[1])
            err = np.abs(got[: n[0], : n[1]] - want[: n[0], : n[1]]).max()
            print("      max |pixel - mass over its pixel_size square| on the common block: %.3e" % err)
            continue
        err = np.abs(got - want).max()
        good = err < 1e-9
        ok = ok and good
        print("  [%s] %-55s shape %s  max abs deviation from integrated mass %.2e" % ("ok" if good else "x", label, got.shape, err))

    print("PASS" if ok else "FAIL")
    return 0 if ok else 1


if __name__ == "__main__":
    sys.exit(main())
