"""C12 demo: after a fit the imager's ranges must contain every fitted point (and exceed the data by < 1 pixel),
resolution * pixel_size must equal the covered width / height and every image must have the reported resolution.

Run from inside the tree under test:
    cd /tmp/wt_V12 && PYTHONPATH=/tmp/wt_V12 /venv/bin/python /tmp/ref_V12/demo.py
Prints PASS and exits 0 if the property holds on all histories tried, prints FAIL and exits 1 otherwise.
"""
import sys

import matplotlib

matplotlib.use("Agg")
import numpy as np

from persim import PersistenceImager

TOL = 1e-9
problems = []


def check_geometry(im, points_bp, label):
    """points_bp: all fitted points in birth-persistence coordinates."""
    ps = im.pixel_size
    (b0, b1), (p0, p1) = im.birth_range, im.pers_range
    res = im.resolution
    if abs(res[0] * ps - im.width) > TOL or abs(res[1] * ps - im.height) > TOL:
        problems.append("%s: resolution * pixel_size != width/height" % label)
    if abs((b1 - b0) - im.width) > TOL or abs((p1 - p0) - im.height) > TOL:
        problems.append("%s: ranges do not span width/height" % label)
    lo, hi = points_bp.min(axis=0), points_bp.max(axis=0)
    if lo[0] < b0 - TOL or hi[0] > b1 + TOL:
        problems.append(
            "%s: birth_range %r does not contain the fitted births [%g, %g]" % (label, (b0, b1), lo[0], hi[0])
        )
    if lo[1] < p0 - TOL or hi[1] > p1 + TOL:
        problems.append(
            "%s: pers_range %r does not contain the fitted persistences [%g, %g]" % (label, (p0, p1), lo[1], hi[1])
        )
    if (b1 - b0) - (hi[0] - lo[0]) > ps + TOL or (p1 - p0) - (hi[1] - lo[1]) > ps + TOL:
        problems.append("%s: ranges exceed the fitted data by more than one pixel" % label)


def check_images(im, dgms, skew, label):
    imgs = im.transform(dgms, skew=skew)
    if len(imgs) != len(dgms):
        problems.append("%s: %d diagrams gave %d images" % (label, len(dgms), len(imgs)))
    for img in imgs:
        if img.shape != im.resolution:
            problems.append("%s: image shape %r != resolution %r" % (label, img.shape, im.resolution))
            break


def to_bp(dgms, skew):
    pts = np.vstack([np.asarray(d, dtype=float) for d in dgms])
    if skew:
        pts = np.column_stack([pts[:, 0], pts[:, 1] - pts[:, 0]])
    return pts


rng = np.random.default_rng(12)
for n_dgms in (1, 2, 5, 31, 32, 33, 40, 64, 70, 100):
    for pixel_size in (0.1, 0.3, 1 / 3, 0.75):
        for skew in (True, False):
            # diagrams drift outwards along the collection, so that the extreme points sit in the last diagrams
            dgms = []
            for k in range(n_dgms):
                n = int(rng.integers(2, 6))
                b = rng.uniform(0.0, 1.0, n) + 0.07 * k
                d = b + rng.uniform(0.1, 1.0, n) + 0.05 * k
                dgms.append(np.column_stack([b, d]))
            label = "fit of %d diagrams, pixel_size=%g, skew=%s" % (n_dgms, pixel_size, skew)

            im = PersistenceImager(birth_range=(0.0, 0.7), pers_range=(0.0, 0.3), pixel_size=0.1)
            im.pixel_size = pixel_size
            im.birth_range = (-0.3, 0.4)
            im.fit(dgms, skew=skew)
            check_geometry(im, to_bp(dgms, skew), label)
            check_images(im, dgms, skew, label)

            # a second fit on the same imager, on the collection in reverse order, must give the same covered region
            first = (im.birth_range, im.pers_range, im.resolution)
            im.fit(dgms[::-1], skew=skew)
            check_geometry(im, to_bp(dgms, skew), label + " (reversed)")
            second = (im.birth_range, im.pers_range, im.resolution)
            if not np.allclose(np.ravel(first[:2]), np.ravel(second[:2]), atol=1e-9) or first[2] != second[2]:
                problems.append("%s: region depends on the order of the collection" % label)

if problems:
    for p in problems[:10]:
        print(p)
    print("... %d problems in total" % len(problems))
    print("FAIL")
    sys.exit(1)
print("PASS")
sys.exit(0)
