"""C18 demo: PersistenceImager fit + transform == fit_transform, transform is
repeatable / leaves the fitted state alone / maps a collection element by
element, and a refit forgets the previous fit.

Run from inside the worktree:
    cd /tmp/wt_G18 && PYTHONPATH=/tmp/wt_G18 /venv/bin/python /tmp/ref_G18/demo.py
Prints PASS and exits 0 when the property holds, prints FAIL and exits 1 otherwise.
"""
import copy
import sys

import matplotlib

matplotlib.use("Agg")
import numpy as np

from persim import PersistenceImager

failures = []


def state(imgr):
    return (
        tuple(float(v) for v in imgr.birth_range),
        tuple(float(v) for v in imgr.pers_range),
        tuple(int(v) for v in imgr.resolution),
        float(imgr.pixel_size),
    )


def same_imgs(a, b):
    if isinstance(a, list) != isinstance(b, list):
        return False
    if isinstance(a, list):
        return len(a) == len(b) and all(same_imgs(x, y) for x, y in zip(a, b))
    return a.shape == b.shape and np.array_equal(a, b)


def check(label, cond):
    if not cond:
        failures.append(label)


rng = np.random.default_rng(18)


def random_dgm(n):
    birth = rng.uniform(-1.0, 3.0, size=n)
    pers = rng.uniform(0.1, 2.5, size=n)
    return np.column_stack([birth, birth + pers])


collections = {
    "single": random_dgm(6),
    "pair": [random_dgm(5), random_dgm(9)],
    "triple": [random_dgm(3), random_dgm(1), random_dgm(7)],
    "lists": [[0.0, 1.0], [1.0, 1.5], [3.0, 5.0]],
}
other = [random_dgm(4) + 10.0, random_dgm(2) + 10.0]

for name, dgms in collections.items():
    for skew in (True, False):
        tag = "%s/skew=%s" % (name, skew)
        pristine = copy.deepcopy(dgms)

        # fit then transform
        a = PersistenceImager(pixel_size=0.5)
        a.fit(dgms, skew=skew)
        st_fit = state(a)
        out_a = a.transform(dgms, skew=skew)
        check(tag + ": transform altered the fitted state", state(a) == st_fit)
        out_a2 = a.transform(dgms, skew=skew)
        check(tag + ": transform is not repeatable", same_imgs(out_a, out_a2))

        # combined fit_transform on a fresh imager
        b = PersistenceImager(pixel_size=0.5)
        out_b = b.fit_transform(dgms, skew=skew)
        check(tag + ": fit_transform state != fit state", state(b) == st_fit)
        check(tag + ": fit_transform output != fit + transform output", same_imgs(out_a, out_b))
        check(tag + ": input diagrams were modified", same_imgs(
            [np.asarray(d) for d in pristine] if isinstance(pristine, list) else pristine,
            [np.asarray(d) for d in dgms] if isinstance(dgms, list) else dgms))

        # element by element, in order
        if isinstance(dgms, list) and not np.isscalar(dgms[0][0]):
            one_by_one = [a.transform(d, skew=skew) for d in dgms]
            check(tag + ": collection is not mapped element by element", same_imgs(out_a, one_by_one))

        # a refit forgets the past: fit on something else first, then on dgms
        c = PersistenceImager(pixel_size=0.5)
        c.fit_transform(other, skew=skew)
        out_c = c.fit_transform(dgms, skew=skew)
        check(tag + ": fit_transform after an earlier fit disagrees with a fresh fit (state or output)", state(c) == st_fit and same_imgs(out_c, out_a))
        d = PersistenceImager(pixel_size=0.5)
        d.fit(other, skew=skew)
        d.fit(dgms, skew=skew)
        check(tag + ": fit after an earlier fit disagrees with a fresh fit", state(d) == st_fit)

if failures:
    print("FAIL")
    for f in failures:
        print("  -", f)
    sys.exit(1)
print("PASS")
sys.exit(0)
