"""C06 demo: a requested bottleneck matching must certify the reported distance.

Run from inside the worktree:
    cd /tmp/wt_M06 && PYTHONPATH=/tmp/wt_M06 /venv/bin/python /tmp/ref_M06/demo.py
Prints PASS / exits 0 when every returned matching is a certificate for the
returned distance, prints FAIL / exits 1 otherwise.
"""
import sys
import warnings

import numpy as np

warnings.simplefilter("ignore")
from persim import bottleneck


def cost(p, q):
    """Bottleneck cost rule: L-infinity between points, half persistence to the diagonal."""
    if p is None and q is None:
        return 0.0
    if q is None:
        return 0.5 * (p[1] - p[0])
    if p is None:
        return 0.5 * (q[1] - q[0])
    return max(abs(p[0] - q[0]), abs(p[1] - q[1]))


def check(dgm1, dgm2):
    """Returns None if the matching certifies the distance, else a message."""
    d_plain = bottleneck(dgm1, dgm2)
    d, m = bottleneck(dgm1, dgm2, matching=True)
    if d != d_plain:
        return "distance with matching %r != without %r" % (d, d_plain)
    A = dgm1 if len(dgm1) else np.array([[0.0, 0.0]])
    B = dgm2 if len(dgm2) else np.array([[0.0, 0.0]])
    left = sorted(int(i) for i in m[:, 0] if i >= 0)
    right = sorted(int(j) for j in m[:, 1] if j >= 0)
    if left != list(range(len(A))) or right != list(range(len(B))):
        return "index columns do not cover both diagrams exactly once"
    for i, j, c in m:
        p = A[int(i)] if i >= 0 else None
        q = B[int(j)] if j >= 0 else None
        if p is None and q is None:
            return "diagonal-diagonal row present"
        if not np.isclose(c, cost(p, q), rtol=1e-12, atol=0):
            return "row (%d,%d) reports cost %r, rule gives %r" % (i, j, c, cost(p, q))
    if m[:, 2].max() != d:
        return "max row cost %r != reported distance %r" % (m[:, 2].max(), d)
    return None


def main():
    failures = []
    # a fixed example: three long-lived points each side, several thresholds feasible
    fixed1 = np.array([[0.0, 4.0], [1.0, 6.0], [2.0, 9.0], [0.5, 1.0]])
    fixed2 = np.array([[0.2, 4.4], [1.3, 6.1], [2.1, 8.0]])
    cases = [(fixed1, fixed2), (fixed2, fixed1), (fixed1, np.zeros((0, 2)))]
    rng = np.random.default_rng(6)
    for _ in range(300):
        n1, n2 = rng.integers(0, 7, size=2)
        b1 = rng.random(n1) * 4
        b2 = rng.random(n2) * 4
        cases.append(
            (np.stack([b1, b1 + rng.random(n1) * 3], 1), np.stack([b2, b2 + rng.random(n2) * 3], 1))
        )
    for _ in range(100):  # grid diagrams: many ties
        n1, n2 = rng.integers(1, 6, size=2)
        b1 = rng.integers(0, 4, size=n1).astype(float)
        b2 = rng.integers(0, 4, size=n2).astype(float)
        cases.append(
            (np.stack([b1, b1 + rng.integers(1, 5, size=n1)], 1), np.stack([b2, b2 + rng.integers(1, 5, size=n2)], 1))
        )
    for dgm1, dgm2 in cases:
        msg = check(dgm1, dgm2)
        if msg is not None:
            failures.append((dgm1, dgm2, msg))
    if failures:
        dgm1, dgm2, msg = failures[0]
        print("FAIL: %d of %d diagram pairs; first:" % (len(failures), len(cases)))
        print("dgm1 =", dgm1.tolist())
        print("dgm2 =", dgm2.tolist())
        print(msg)
        return 1
    print("PASS: %d diagram pairs, every matching certifies its distance" % len(cases))
    return 0


if __name__ == "__main__":
    sys.exit(main())
