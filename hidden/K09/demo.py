"""C09 demo: grid-landscape arithmetic is pointwise and leaves its operands untouched.

Run from inside the worktree:
    cd /tmp/wt_K09 && PYTHONPATH=/tmp/wt_K09 /venv/bin/python /tmp/ref_K09/demo.py
Prints PASS / exits 0 when the property holds, prints FAIL / exits 1 otherwise.
"""
import sys

import numpy as np

from persim import PersLandscapeApprox

GRID = dict(start=0.0, stop=5.0, num_steps=6)


def pla(rows):
    return PersLandscapeApprox(values=np.array(rows, dtype=float), **GRID)


def main():
    problems = []

    deep_rows = [[0, 1, 2, 2, 1, 0], [0, 0, 1, 0, 0, 0]]
    flat_rows = [[0, 1, 1, 1, 1, 0]]
    deep_padded = np.array(deep_rows, dtype=float)
    flat_padded = np.array(flat_rows + [[0] * 6], dtype=float)

    def check(label, got, want):
        if np.shape(got) != np.shape(want) or not np.allclose(got, want):
            problems.append(f"{label}:\n  got  {np.asarray(got).tolist()}\n  want {want.tolist()}")

    # 1. deeper + shallower, shallower + deeper, equal depths: result and operands
    P, Q = pla(deep_rows), pla(flat_rows)
    check("(P+Q).values", (P + Q).values, deep_padded + flat_padded)
    check("P.values after P+Q", P.values, deep_padded)
    check("Q.values after P+Q", Q.values, np.array(flat_rows, dtype=float))

    P, Q = pla(deep_rows), pla(flat_rows)
    check("(Q+P).values", (Q + P).values, deep_padded + flat_padded)
    check("P.values after Q+P", P.values, deep_padded)
    check("Q.values after Q+P", Q.values, np.array(flat_rows, dtype=float))

    P, R = pla(deep_rows), pla(deep_rows)
    check("(P+R).values", (P + R).values, 2 * deep_padded)
    check("P.values after P+R", P.values, deep_padded)
    check("R.values after P+R", R.values, deep_padded)

    # 2. a sequence of operations on a shared operand: P + Q evaluated twice,
    #    then P - Q, must all refer to the same P
    P, Q = pla(deep_rows), pla(flat_rows)
    first = (P + Q).values.copy()
    second = (P + Q).values.copy()
    check("second evaluation of P+Q", second, first)
    check("(P-Q).values after two sums", (P - Q).values, deep_padded - flat_padded)
    check("P.values after the sequence", P.values, deep_padded)

    # 3. the result must not be a view of an operand either
    P, Q = pla(deep_rows), pla(flat_rows)
    S = P + Q
    S.values[0, 2] = 99.0
    check("P.values after writing into (P+Q).values", P.values, deep_padded)

    # 4. integer-valued landscape plus real-valued landscape is still the pointwise sum
    Pi = PersLandscapeApprox(values=np.array(deep_rows), **GRID)
    H = pla(flat_rows) / 2
    try:
        check("(Pi+H).values", (Pi + H).values, deep_padded + flat_padded / 2)
        check("Pi.values after Pi+H", Pi.values, deep_padded)
    except Exception as exc:  # noqa: BLE001
        problems.append(f"integer + real landscape raised {type(exc).__name__}: {exc}")

    if problems:
        print("FAIL")
        for p in problems:
            print(" -", p)
        return 1
    print("PASS")
    return 0


if __name__ == "__main__":
    sys.exit(main())
