"""C06 demo: the matching returned by bottleneck / wasserstein certifies the distance.

    cd /tmp/wt_T06 && PYTHONPATH=/tmp/wt_T06 /venv/bin/python /tmp/ref_T06/demo.py

For every pair of diagrams the table returned with matching=True is checked against
the property: same distance as without matching, every point of each diagram in exactly
one row (-1 = diagonal), third column = cost of the pairing under the distance's own
cost rule (recomputed here from the diagrams), max / sum of the costs = distance.
Prints PASS and exits 0 if all pairs conform, prints FAIL and exits 1 otherwise.
"""
import sys
import warnings

import numpy as np

import persim
from persim import bottleneck, wasserstein

TOL = 1e-9


def standin(dgm):
    dgm = np.asarray(dgm, dtype=float)
    return dgm.reshape(-1, 2) if dgm.size else np.array([[0.0, 0.0]])


def pair_cost(kind, p, q):
    """cost of pairing p with q; None stands for the diagonal"""
    if p is None and q is None:
        return 0.0
    if p is None or q is None:
        b, d = q if p is None else p
        return 0.5 * (d - b) if kind == "bottleneck" else (d - b) / np.sqrt(2)
    if kind == "bottleneck":
        return max(abs(p[0] - q[0]), abs(p[1] - q[1]))
    return float(np.hypot(p[0] - q[0], p[1] - q[1]))


def check(kind, dgm1, dgm2):
    f = bottleneck if kind == "bottleneck" else wasserstein
    with warnings.catch_warnings():
        warnings.simplefilter("ignore")
        d_plain = f(dgm1, dgm2)
        d, table = f(dgm1, dgm2, matching=True)
    S, T = standin(dgm1), standin(dgm2)
    problems = []
    if not abs(d - d_plain) <= TOL:
        problems.append("distance with matching %r != without %r" % (d, d_plain))
    if table.ndim != 2 or table.shape[1] != 3:
        return ["table of shape %r" % (table.shape,)]
    i_col, j_col = table[:, 0].astype(int), table[:, 1].astype(int)
    if sorted(i_col[i_col >= 0]) != list(range(len(S))):
        problems.append("points of diagram 1 not covered exactly once: %r" % (sorted(i_col),))
    if sorted(j_col[j_col >= 0]) != list(range(len(T))):
        problems.append("points of diagram 2 not covered exactly once: %r" % (sorted(j_col),))
    if np.any((i_col < 0) & (j_col < 0)) or i_col.min() < -1 or j_col.min() < -1:
        problems.append("bad index rows")
    if problems:
        return problems
    for i, j, c in zip(i_col, j_col, table[:, 2]):
        want = pair_cost(kind, S[i] if i >= 0 else None, T[j] if j >= 0 else None)
        if not abs(c - want) <= TOL:
            problems.append("row (%d, %d): cost %r, cost rule gives %r" % (i, j, c, want))
    total = table[:, 2].max() if kind == "bottleneck" else table[:, 2].sum()
    if not abs(total - d) <= TOL:
        problems.append("%s of row costs %r != distance %r"
                        % ("max" if kind == "bottleneck" else "sum", total, d))
    return problems


def diagrams():
    rng = np.random.default_rng(2024)

    def rand(n, scale=1.0):
        b = rng.random(n) * scale
        return np.stack([b, b + rng.random(n) * scale], 1)

    yield "test-suite example 2 vs 4", np.array([[0.5, 1], [0.6, 1.1]]), np.array(
        [[0.5, 1.1], [0.6, 1.1], [0.8, 1.1], [1.0, 1.1]])
    yield "1 vs 1", np.array([[0.0, 10.0]]), np.array([[5.0, 5.0]])
    yield "empty vs 3", np.array([]), rand(3)
    yield "3 vs 3 with ties", np.array([[0, 2], [0, 2], [1, 4.0]]), np.array([[0, 2], [1, 4], [1, 4.0]])
    yield "5 vs 5", rand(5), rand(5)
    yield "4 vs 6", rand(4), rand(6)
    # from here on the two diagrams have more than ten points together
    yield "6 vs 5", rand(6), rand(5)
    yield "7 vs 6", rand(7), rand(6)
    yield "3 vs 12", rand(3), rand(12)
    yield "12 vs empty", rand(12), np.array([[]])
    yield "8 vs 8 integer grid", rng.integers(0, 4, (8, 2)).cumsum(1), rng.integers(0, 4, (8, 2)).cumsum(1)
    yield "10 vs 10", rand(10), rand(10)
    yield "15 vs 9", rand(15, 5.0), rand(9, 5.0)


def main():
    print("persim from", persim.__file__)
    failed = 0
    for label, a, b in diagrams():
        for kind in ("bottleneck", "wasserstein"):
            problems = check(kind, a, b)
            if problems:
                failed += 1
                print("  %-11s %-26s VIOLATION: %s%s" % (
                    kind, label, problems[0], " (+%d more)" % (len(problems) - 1) if len(problems) > 1 else ""))
            else:
                print("  %-11s %-26s ok" % (kind, label))
    if failed:
        print("FAIL: %d diagram pairs whose matching does not certify the distance" % failed)
        return 1
    print("PASS")
    return 0


if __name__ == "__main__":
    sys.exit(main())
