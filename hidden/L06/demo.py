"""C06 demo: the matching returned by bottleneck(..., matching=True) must be a
certificate: every point of both diagrams in exactly one row, row costs under
the L-infinity / half-persistence rule, max of the costs == the distance."""
import sys
import numpy as np
import matplotlib
matplotlib.use("Agg")
from persim import bottleneck


def check(dgm1, dgm2):
    dgm1, dgm2 = np.asarray(dgm1, float), np.asarray(dgm2, float)
    d_plain = bottleneck(dgm1, dgm2)
    d, m = bottleneck(dgm1, dgm2, matching=True)
    problems = []
    if d != d_plain:
        problems.append("distance differs with matching=True")
    for col, dgm, name in ((0, dgm1, "dgm1"), (1, dgm2, "dgm2")):
        seen = sorted(int(v) for v in m[:, col] if v >= 0)
        if seen != list(range(len(dgm))):
            problems.append("%s points in the matching: %s, expected 0..%d"
                            % (name, seen, len(dgm) - 1))
    for i, j, c in m:
        i, j = int(i), int(j)
        if i >= 0 and j >= 0:
            want = np.max(np.abs(dgm1[i] - dgm2[j]))
        elif i >= 0:
            want = 0.5 * (dgm1[i, 1] - dgm1[i, 0])
        elif j >= 0:
            want = 0.5 * (dgm2[j, 1] - dgm2[j, 0])
        else:
            problems.append("diagonal-diagonal row reported")
            continue
        if not np.isclose(c, want):
            problems.append("row (%d,%d) cost %r, expected %r" % (i, j, c, want))
    if len(m) and not np.isclose(m[:, 2].max(), d):
        problems.append("max row cost %r != distance %r" % (m[:, 2].max(), d))
    return problems


CASES = [
    # first point of dgm2 is short-lived and far from everything: it must go
    # to the diagonal in every optimal matching
    ([[0, 10]], [[4, 5], [0, 9]]),
    ([[0, 10], [2, 7]], [[20, 21], [0, 10.5], [2, 7.5]]),
    # unequal sizes the other way round, dgm2[0] again on the diagonal
    ([[0, 10], [1, 6], [3, 9]], [[5, 5.2], [0, 10]]),
    # controls: dgm2[0] is matched to a point of dgm1
    ([[0.5, 1], [0.6, 1.1]], [[0.5, 1.1], [0.6, 1.1], [0.8, 1.1], [1.0, 1.1]]),
    ([[0, 10]], [[0, 9], [4, 5]]),
]

failed = False
for a, b in CASES:
    for p in check(a, b):
        failed = True
        print("dgm1=%s dgm2=%s: %s" % (a, b, p))
print("FAIL" if failed else "PASS")
sys.exit(1 if failed else 0)
