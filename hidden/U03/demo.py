"""C03 demo: the exact landscape must equal the k-th-largest-tent definition.

run:  cd /tmp/wt_U03 && PYTHONPATH=/tmp/wt_U03 /venv/bin/python /tmp/ref_U03/demo.py

The diagrams below have pairwise different bars (no repeated bar), positive
lengths and only finite values; they differ in how the caller stored them
(float64, float32, int64, int16, uint8, nested lists).  For each of them the
piecewise-linear functions given by `critical_pairs` are compared with the
definition  lambda_k(t) = k-th largest of max(0, min(t - b, d - t))  on a grid
of t that contains every birth, death and midpoint.
"""
import sys
import warnings

import numpy as np

warnings.simplefilter("ignore")

from persim import PersLandscapeExact  # noqa: E402


def definition(bars, k, t):
    """k-th largest tent value at t (k = 1, 2, ...), bars as python floats"""
    vals = sorted((max(0.0, min(t - b, d - t)) for b, d in bars), reverse=True)
    return vals[k - 1] if k <= len(vals) else 0.0


def evaluate(pairs, t):
    """linear interpolation of the critical pairs, zero outside them"""
    xs = [float(x) for x, _ in pairs]
    ys = [float(y) for _, y in pairs]
    if any(x1 < x0 for x0, x1 in zip(xs, xs[1:])):
        return None  # abscissae out of order
    if not xs or t < xs[0] or t > xs[-1]:
        return 0.0
    return float(np.interp(t, xs, ys))


def check(name, dgm, hom_deg=0, dgms=None):
    bars = [(float(b), float(d)) for b, d in np.asarray(dgm).tolist()]
    pl = PersLandscapeExact(dgms=dgms if dgms is not None else [dgm], hom_deg=hom_deg)
    cps = pl.critical_pairs
    knots = sorted({x for b, d in bars for x in (b, d, (b + d) / 2)})
    lo, hi = knots[0], knots[-1]
    grid = sorted(set(knots) | set(np.linspace(lo - 1, hi + 1, 257).tolist()))
    scale = max(1.0, max(abs(lo), abs(hi)))
    worst = 0.0
    for k in range(1, len(bars) + 2):
        pairs = cps[k - 1] if k <= len(cps) else []
        for t in grid:
            got = evaluate(pairs, t)
            want = definition(bars, k, t)
            if got is None:
                print(f"  {name}: depth {k} critical points not ordered by abscissa: {pairs}")
                return False
            worst = max(worst, abs(got - want))
            if abs(got - want) > 1e-9 * scale:
                print(f"  {name}: depth {k}, t={t}: landscape {got} but definition {want}")
                print(f"     critical pairs of that depth: {pairs}")
                return False
    print(f"  {name}: ok ({len(bars)} bars, {len(cps)} depths, max deviation {worst:.2e})")
    return True


def main():
    rng = np.random.default_rng(3)
    ok = True

    # float64 diagrams: nested, overlapping, disjoint, touching, equal births / deaths
    ok &= check("float64 textbook", np.array([[1.0, 5.0], [2.0, 8.0], [3.0, 4.0], [5.0, 9.0], [6.0, 7.0]]))
    ok &= check("float64 touching / shared ends",
                np.array([[0.0, 2.0], [2.0, 4.0], [0.0, 4.0], [1.0, 4.0], [0.0, 1.0], [-3.0, -1.5]]))
    for i in range(5):
        b = rng.normal(size=6).round(3)
        dgm = np.c_[b, b + rng.random(6).round(3) + 0.001]
        ok &= check(f"float64 random {i}", dgm)
    # second homological degree is the one selected
    ok &= check("hom_deg=1", np.array([[0.5, 2.5], [1.0, 2.0]]), hom_deg=1,
                dgms=[np.array([[0.0, 9.0]]), np.array([[0.5, 2.5], [1.0, 2.0]])])

    # the same kind of diagram, stored by the caller in another container / dtype
    ok &= check("nested python lists", [[0, 3], [1, 4], [2, 7]])
    ok &= check("int64", np.array([[0, 6], [1, 4], [3, 9], [-5, -2]], dtype=np.int64))
    ok &= check("float32", np.array([[0.1, 0.7], [0.3, 1.9], [0.2, 0.5]], dtype=np.float32))
    ok &= check("int16 (filtration values in the ten thousands)",
                np.array([[12000, 30000], [20000, 26000], [25000, 32000]], dtype=np.int16))
    ok &= check("uint8 (grey levels of an image filtration)",
                np.array([[100, 200], [120, 250], [10, 40], [130, 180]], dtype=np.uint8))

    if ok:
        print("PASS")
        return 0
    print("FAIL")
    return 1


if __name__ == "__main__":
    sys.exit(main())
