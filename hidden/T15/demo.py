"""C15 demo: sliced Wasserstein is the AVERAGE over the M sampled directions of the
1-D transport cost, for every M >= 1 (not only the default M=50).

Run from a worktree:  cd <tree> && PYTHONPATH=<tree> /venv/bin/python /tmp/ref_T15/demo.py
Prints PASS / exits 0 when the property holds, prints FAIL / exits 1 otherwise.
"""
import sys
import warnings

import numpy as np

warnings.simplefilter("ignore")
from persim import sliced_wasserstein, wasserstein


def reference(PD1, PD2, M):
    """Definition, written independently in float64."""
    PD1 = np.asarray(PD1, dtype=float).reshape(-1, 2)
    PD2 = np.asarray(PD2, dtype=float).reshape(-1, 2)
    img1 = np.repeat(PD1.mean(axis=1)[:, None], 2, axis=1)
    img2 = np.repeat(PD2.mean(axis=1)[:, None], 2, axis=1)
    A = np.vstack([PD1, img2])
    B = np.vstack([PD2, img1])
    total = 0.0
    for k in range(M):
        t = (0.5 + k / M) * np.pi
        l = np.array([np.cos(t), np.sin(t)])
        total += np.abs(np.sort(A @ l) - np.sort(B @ l)).sum()
    return total / M


rng = np.random.default_rng(15)
problems = []


def diagram(n, shift=0.0):
    b = rng.uniform(0, 4, n)
    return np.column_stack([b, b + rng.uniform(0.1, 3, n)]) + shift


for trial in range(12):
    shift = -20.0 if trial % 2 else 0.0      # also negative births
    A = diagram(int(rng.integers(0, 6)), shift)
    B = diagram(int(rng.integers(1, 6)), shift)
    w1 = wasserstein(A, B)
    for M in (1, 2, 5, 10, 25, 50, 64, 200):
        got = sliced_wasserstein(A, B, M)
        want = reference(A, B, M)
        if not np.isclose(got, want, rtol=1e-5, atol=1e-7):
            problems.append(
                "M=%d: sliced_wasserstein=%.6f but the average of the %d 1-D costs is %.6f"
                % (M, got, M, want)
            )
        if got > 2 * w1 * (1 + 1e-6) + 1e-9:
            problems.append("M=%d: SW=%.6f exceeds 2*W1=%.6f" % (M, got, 2 * w1))
        if not np.isclose(sliced_wasserstein(B, A, M), got, rtol=1e-9, atol=1e-12):
            problems.append("M=%d: not symmetric" % M)

if problems:
    for p in problems[:8]:
        print(p)
    print("... %d violations in total" % len(problems))
    print("FAIL")
    sys.exit(1)
print("PASS")
sys.exit(0)
