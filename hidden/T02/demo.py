"""Demo for property C02: persim.wasserstein returns the true min-sum matching cost.

The reference value is an exhaustive minimum over all partial matchings (points left
unmatched go to the diagonal at cost (d-b)/sqrt(2)); it does not use persim, sklearn
or scipy.  The call is made under a small sklearn `working_memory` budget (a public,
documented sklearn setting: sklearn.set_config / sklearn.config_context), once with a
number of points that the row slabs divide evenly and once with one that they do not.

run:  cd /tmp/wt_T02 && PYTHONPATH=/tmp/wt_T02 /venv/bin/python /tmp/ref_T02/demo.py
exit 0 + PASS when every distance equals the brute force value, exit 1 + FAIL otherwise.
"""
import itertools
import math
import sys
import warnings

import numpy as np
import sklearn

import persim
from persim import wasserstein


def brute_force(A, B):
    """min over all partial matchings of sum of costs"""
    A = [tuple(map(float, p)) for p in A]
    B = [tuple(map(float, p)) for p in B]
    da = [(d - b) / math.sqrt(2) for b, d in A]
    db = [(d - b) / math.sqrt(2) for b, d in B]
    best = math.inf
    for k in range(0, min(len(A), len(B)) + 1):
        for ia in itertools.combinations(range(len(A)), k):
            rest_a = sum(da) - sum(da[i] for i in ia)
            for jb in itertools.permutations(range(len(B)), k):
                c = rest_a + sum(db) - sum(db[j] for j in jb)
                c += sum(math.dist(A[i], B[j]) for i, j in zip(ia, jb))
                best = min(best, c)
    return best


def main():
    print("persim imported from", persim.__file__)
    rng = np.random.default_rng(12)
    failures = 0
    N = 4
    # budget for two rows of the MxN block of point-to-point distances (8 bytes an entry)
    budget_mib = 2 * N * 8 / 2.0 ** 20
    for M in (4, 5, 6, 7):
        b = rng.uniform(0, 1, size=M)
        A = np.column_stack([b, b + rng.uniform(0.5, 1.0, size=M)])
        # the second diagram is a small perturbation of the first N points of A, so the
        # optimal matching pairs those and sends the other M-N points to the diagonal
        B = A[:N] + rng.uniform(-0.02, 0.02, size=(N, 2))
        ref = brute_force(A, B)
        plain = wasserstein(A, B)
        with sklearn.config_context(working_memory=budget_mib):
            with warnings.catch_warnings():
                warnings.simplefilter("ignore")
                small = wasserstein(A, B)
                again = wasserstein(A, B)
        ok = all(abs(v - ref) <= 1e-7 * max(1.0, ref) for v in (plain, small, again))
        print("M=%d N=%d  brute force %.12f  default %.12f  working_memory=%.3g MiB %.12f / %.12f  %s"
              % (M, N, ref, plain, budget_mib, small, again, "ok" if ok else "WRONG"))
        failures += not ok
    if failures:
        print("FAIL: %d of 4 distances are not the minimum matching cost" % failures)
        return 1
    print("PASS")
    return 0


if __name__ == "__main__":
    sys.exit(main())
