"""
Property C02: persim.wasserstein(dgm1, dgm2) is the true min-sum matching cost
(point-point: Euclidean distance, point-diagonal: (d-b)/sqrt(2)).

The returned value is compared with a brute-force enumeration of every partial
matching on small diagrams of unequal sizes, in both argument orders.

Run from inside the worktree:
    cd /tmp/wt_L02 && PYTHONPATH=/tmp/wt_L02 /venv/bin/python /tmp/ref_L02/demo.py
Prints PASS / exits 0 when the property holds, prints FAIL / exits 1 otherwise.
"""
import sys
import warnings

import numpy as np

warnings.filterwarnings("ignore")
from persim import wasserstein  # noqa: E402


def brute_force(A, B):
    """min over all partial matchings, by exhaustive recursion"""
    A = [tuple(map(float, p)) for p in A]
    B = [tuple(map(float, p)) for p in B]
    diag = lambda p: (p[1] - p[0]) / np.sqrt(2)
    dist = lambda p, q: float(np.hypot(p[0] - q[0], p[1] - q[1]))

    def rec(i, free):
        if i == len(A):
            return sum(diag(B[j]) for j in free)
        best = diag(A[i]) + rec(i + 1, free)
        for j in free:
            best = min(best, dist(A[i], B[j]) + rec(i + 1, free - {j}))
        return best

    return rec(0, frozenset(range(len(B))))


def cases():
    # the mirror image of the suite's test_repeated: the repeated point is in dgm2
    yield np.array([[0.0, 10.0]]), np.array([[0.0, 10.0], [0.0, 10.0]])
    yield np.array([[0, 10]]), np.array([[0, 10], [0, 10]])
    # one long bar against the same bar plus noise near the diagonal
    yield (np.array([[0.0, 4.0]]),
           np.array([[0.1, 4.1], [1.0, 1.2], [2.0, 2.5]]))
    yield np.zeros((0, 2)), np.array([[0.0, 1.0], [0.5, 3.0]])
    # tiny scale
    yield (np.array([[0.0, 4.0e-9], [1.0e-9, 1.5e-9]]),
           np.array([[1.0e-9, 1.4e-9], [0.0, 4.1e-9], [2.0e-9, 3.0e-9]]))
    rng = np.random.default_rng(20240602)
    for _ in range(60):
        m, n = rng.integers(0, 5), rng.integers(0, 5)
        b1 = rng.uniform(-2, 2, size=m)
        b2 = rng.uniform(-2, 2, size=n)
        A = np.column_stack([b1, b1 + rng.uniform(0, 3, size=m)])
        B = np.column_stack([b2, b2 + rng.uniform(0, 3, size=n)])
        if m and n and rng.random() < 0.5:      # multiplicities across diagrams
            B[rng.integers(0, n)] = A[rng.integers(0, m)]
        yield A, B


def main():
    worst = None
    checked = 0
    for A, B in cases():
        for X, Y in ((A, B), (B, A)):
            got = float(wasserstein(X, Y))
            want = brute_force(X, Y)
            checked += 1
            err = abs(got - want)
            # sklearn's pairwise distances are accurate to about 1e-8 of the
            # coordinate scale; allow 1e-6 of it
            scale = max([1e-300] + [abs(float(v)) for v in X.ravel()]
                        + [abs(float(v)) for v in Y.ravel()])
            if err > 1e-6 * scale:
                if worst is None or err > worst[0]:
                    worst = (err, X, Y, got, want)
    if worst is not None:
        _, X, Y, got, want = worst
        print("wasserstein() is not the min-sum matching cost, e.g. for")
        print("dgm1 =", X.tolist())
        print("dgm2 =", Y.tolist())
        print("returned %.12g, brute-force optimum %.12g" % (got, want))
        print("FAIL")
        return 1
    print("%d comparisons with the brute-force optimum agree" % checked)
    print("PASS")
    return 0


if __name__ == "__main__":
    sys.exit(main())
