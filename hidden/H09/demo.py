"""C09 demo: re-sampling onto a user-given common grid is linear interpolation
of every depth on exactly that grid, and linear combinations / averages equal
the same combination of the re-sampled values.

Run from inside the worktree:
    cd /tmp/wt_H09 && PYTHONPATH=/tmp/wt_H09 /venv/bin/python /tmp/ref_H09/demo.py
"""
import sys

import numpy as np

from persim.landscapes import PersLandscapeApprox, average_approx, lc_approx, snap_pl

failures = []


def check(label, ok):
    if not ok:
        failures.append(label)


def reference(pl, grid):
    own = np.linspace(pl.start, pl.stop, pl.num_steps)
    return np.array([np.interp(grid, own, row) for row in pl.values])


# Two landscapes whose own grids both start to the right of 0.
P = PersLandscapeApprox(
    start=1, stop=6, num_steps=6, values=np.array([[1.0, 2.0, 3.0, 2.0, 1.0, 0.5]])
)
Q = PersLandscapeApprox(
    start=2,
    stop=8,
    num_steps=7,
    values=np.array(
        [[0.5, 1.0, 2.0, 3.0, 2.0, 1.0, 0.0], [0.0, 0.0, 1.0, 2.0, 1.0, 0.0, 0.0]]
    ),
)
P_before, Q_before = P.values.copy(), Q.values.copy()

# The requested common grid starts at 0 -- a perfectly ordinary choice.
start, stop, num_steps = 0, 10, 11
grid = np.linspace(start, stop, num_steps)

snapped = snap_pl([P, Q], start=start, stop=stop, num_steps=num_steps)
for name, orig, sn in zip("PQ", (P, Q), snapped):
    check(f"snap_pl {name}: start", sn.start == start)
    check(f"snap_pl {name}: stop", sn.stop == stop)
    check(f"snap_pl {name}: num_steps", sn.num_steps == num_steps)
    want = reference(orig, grid)
    check(
        f"snap_pl {name}: values are the interpolation on the requested grid",
        sn.values.shape == want.shape and np.allclose(sn.values, want),
    )

lc = lc_approx([P, Q], [2.0, -1.0], start=start, stop=stop, num_steps=num_steps)
want = np.zeros((2, num_steps))
want[:1] += 2.0 * reference(P, grid)
want -= reference(Q, grid)
check("lc_approx: grid", (lc.start, lc.stop, lc.num_steps) == (start, stop, num_steps))
check("lc_approx: values", lc.values.shape == want.shape and np.allclose(lc.values, want))

avg = average_approx([P, Q], start=start, stop=stop, num_steps=num_steps)
want = np.zeros((2, num_steps))
want[:1] += 0.5 * reference(P, grid)
want += 0.5 * reference(Q, grid)
check("average_approx: grid", (avg.start, avg.stop) == (start, stop))
check("average_approx: values", np.allclose(avg.values, want))

# Same thing with a non-positive stop: landscapes living left of 0, stop=0.
N = PersLandscapeApprox(
    start=-6, stop=-2, num_steps=5, values=np.array([[0.0, 1.0, 2.0, 1.0, 0.0]])
)
[N_snap] = snap_pl([N], start=-8, stop=0, num_steps=9)
check("snap_pl N: stop", N_snap.stop == 0)
check(
    "snap_pl N: values",
    np.allclose(N_snap.values, reference(N, np.linspace(-8, 0, 9))),
)

# operands untouched
check("P untouched", np.array_equal(P.values, P_before) and P.start == 1)
check("Q untouched", np.array_equal(Q.values, Q_before) and Q.start == 2)

if failures:
    print("FAIL")
    for f in failures:
        print("  -", f)
    sys.exit(1)
print("PASS")
sys.exit(0)
