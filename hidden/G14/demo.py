"""
C14 demo: the heat-kernel distance must equal sqrt(k(F,F)+k(G,G)-2k(F,G)) for the
multi-scale kernel at every scale, and must not change when both diagrams are
translated along the diagonal.

Run from inside the worktree:
    cd /tmp/wt_G14 && PYTHONPATH=/tmp/wt_G14 /venv/bin/python /tmp/ref_G14/demo.py
"""
import sys
import numpy as np
from persim import heat


def reference(F, G, sigma):
    """Independent closed-form evaluation of the Reininghaus et al. distance."""
    F = np.asarray(F, dtype=float).reshape(-1, 2)
    G = np.asarray(G, dtype=float).reshape(-1, 2)

    def k(A, B):
        if len(A) == 0 or len(B) == 0:
            return 0.0
        d = ((A[:, None, :] - B[None, :, :]) ** 2).sum(-1)
        dm = ((A[:, None, :] - B[None, :, ::-1]) ** 2).sum(-1)
        return (np.exp(-d / (8 * sigma)) - np.exp(-dm / (8 * sigma))).sum() / (
            8 * np.pi * sigma
        )

    return np.sqrt(max(k(F, F) + k(G, G) - 2 * k(F, G), 0.0))


failures = []


def check(label, got, want, tol):
    ok = np.isfinite(got) and abs(got - want) <= tol
    print("%-52s got=%.12g want=%.12g %s" % (label, got, want, "ok" if ok else "WRONG"))
    if not ok:
        failures.append(label)


F = np.array([[0.2, 0.9], [0.1, 0.4], [0.5, 0.5]])
G = np.array([[0.3, 0.8]])
sigma = 0.4

# 1. baseline, ordinary scale
base = heat(F, G, sigma)
check("unit scale vs closed form", base, reference(F, G, sigma), 1e-12)

# 2. translation along the diagonal: same persistences, large birth values
for t in (1e3, 1e5, -1e5):
    check("translated by %g along the diagonal" % t, heat(F + t, G + t, sigma), base, 1e-6)

# 3. short-lived (but far from degenerate) features next to a long one
F2 = np.array([[1.0, 1.0 + 8e-6], [2.0, 2.0 + 6e-6]])
G2 = np.zeros((0, 2))
check("low-persistence features vs empty diagram", heat(F2, G2, sigma), reference(F2, G2, sigma), 1e-12)

# 4. triangle inequality through a translated copy
A = F + 1e5
B = G + 1e5
C = np.array([[1e5 + 0.3, 1e5 + 0.8], [1e5, 1e5 + 2.0]])
dAB, dBC, dAC = heat(A, B, sigma), heat(B, C, sigma), heat(A, C, sigma)
check("d(A,B) after translation", dAB, reference(F, G, sigma), 1e-6)
check("d(A,C) after translation", dAC, reference(A - 1e5, C - 1e5, sigma), 1e-6)

if failures:
    print("FAIL")
    sys.exit(1)
print("PASS")
sys.exit(0)
