"""C10 demo: the norms of a grid landscape must keep describing the functions of the
diagram it was built from - asking for a norm must not change the landscape.

Prints PASS / exits 0 when every check holds, prints FAIL / exits 1 otherwise.
(On a tree without the `interval` option of p_norm the windowed query is skipped.)
"""
import sys
import warnings

import numpy as np

warnings.simplefilter("ignore")
from persim import PersLandscapeApprox  # noqa: E402

dgm1 = np.array([[0.0, 4.0], [1.0, 5.0], [2.0, 3.0]])
dgm2 = np.array([[0.2, 4.1], [1.0, 4.6], [2.1, 3.0]])
GRID = dict(start=0.0, stop=5.0, num_steps=11)


def landscape(dgm):
    return PersLandscapeApprox(dgms=[dgm], hom_deg=0, **GRID)


P, twin, Q = landscape(dgm1), landscape(dgm1), landscape(dgm2)
grid = np.linspace(GRID["start"], GRID["stop"], GRID["num_steps"])

# reference values straight from the definition (the functions are >= 0 and
# piecewise linear on the grid, so the trapezoid rule is exact for p = 1)
ref_1 = float(sum(np.trapezoid(v, grid) for v in twin.values))
ref_sup = float(np.max(twin.values))

problems = []


def check(name, ok, detail=""):
    if not ok:
        problems.append(f"{name}: {detail}")


before = (P.p_norm(p=1), P.p_norm(p=2), P.sup_norm())

# a windowed query that cuts through grid cells, where available
try:
    w1 = P.p_norm(p=1, interval=(1.25, 3.3))
    w2 = P.p_norm(p=1, interval=(1.25, 3.3))
    check("windowed norm is repeatable", w1 == w2, f"{w1} then {w2}")
    inside = float(
        sum(
            np.trapezoid(np.interp(t, grid, v), t)
            for v in twin.values
            for t in [np.unique(np.concatenate(([1.25, 3.3], grid[(grid > 1.25) & (grid < 3.3)])))]
        )
    )
    check("windowed norm equals the integral over the window", abs(w1 - inside) < 1e-12, f"{w1} vs {inside}")
except TypeError:
    print("note: p_norm has no `interval` option here; windowed query skipped")

after = (P.p_norm(p=1), P.p_norm(p=2), P.sup_norm())

check("1-norm equals the integral of the landscape functions", abs(after[0] - ref_1) < 1e-12, f"{after[0]} vs {ref_1}")
check("sup norm equals the largest value", after[2] == ref_sup, f"{after[2]} vs {ref_sup}")
check("norms are unchanged by a query", before == after, f"{before} -> {after}")
D = P - twin
check("norm of P - P is zero", D.p_norm(p=2) == 0.0 and D.sup_norm() == 0.0, f"{D.p_norm(p=2)}, {D.sup_norm()}")
sup_diff = (P - Q).sup_norm()
ref_diff = (twin - Q).sup_norm()
check("sup norm of the difference is what the two diagrams give", sup_diff == ref_diff, f"{sup_diff} vs {ref_diff}")

if problems:
    print("FAIL")
    for line in problems:
        print("  -", line)
    sys.exit(1)
print("PASS")
sys.exit(0)
