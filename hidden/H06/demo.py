"""
C06 demo: the matching returned by bottleneck(..., matching=True) must certify
the reported distance (every point in exactly one row, each row's third entry
is the L-infinity / half-persistence cost of that pairing, max of the row costs
== distance == distance without matching=True).

Run from inside the worktree:
    cd /tmp/wt_H06 && PYTHONPATH=/tmp/wt_H06 /venv/bin/python /tmp/ref_H06/demo.py
Prints PASS and exits 0 if the property holds on all cases, FAIL / exit 1 otherwise.
"""
import sys
import warnings

import numpy as np

warnings.simplefilter("ignore")
from persim import bottleneck  # noqa: E402


def pair_cost(p, q):
    """Bottleneck cost rule: L-infinity between points, half persistence to the diagonal."""
    if p is None:
        return 0.5 * (q[1] - q[0])
    if q is None:
        return 0.5 * (p[1] - p[0])
    return max(abs(p[0] - q[0]), abs(p[1] - q[1]))


def check(dgm1, dgm2):
    problems = []
    A = np.array(dgm1, dtype=float).reshape(-1, 2)
    B = np.array(dgm2, dtype=float).reshape(-1, 2)
    if A.shape[0] == 0:
        A = np.array([[0.0, 0.0]])
    if B.shape[0] == 0:
        B = np.array([[0.0, 0.0]])

    d_plain = bottleneck(np.array(dgm1), np.array(dgm2))
    d, m = bottleneck(np.array(dgm1), np.array(dgm2), matching=True)
    if d != d_plain:
        problems.append("distance with matching %r != without %r" % (d, d_plain))

    left = sorted(int(i) for i in m[:, 0] if i >= 0)
    right = sorted(int(j) for j in m[:, 1] if j >= 0)
    if left != list(range(A.shape[0])):
        problems.append("dgm1 indices not each exactly once: %r" % left)
    if right != list(range(B.shape[0])):
        problems.append("dgm2 indices not each exactly once: %r" % right)

    for i, j, c in m:
        i, j = int(i), int(j)
        if i == -1 and j == -1:
            problems.append("diagonal-diagonal row present")
            continue
        if i >= A.shape[0] or j >= B.shape[0]:
            continue  # already reported above
        want = pair_cost(A[i] if i >= 0 else None, B[j] if j >= 0 else None)
        if not np.isclose(c, want, rtol=0, atol=1e-12):
            problems.append("row (%d, %d): cost %r, expected %r" % (i, j, c, want))

    if not np.isclose(np.max(m[:, 2]), d, rtol=0, atol=1e-12):
        problems.append("max of row costs %r != distance %r" % (np.max(m[:, 2]), d))
    return problems


CASES = [
    # equal sizes, everything paired point to point
    ([[0.5, 1.0], [0.6, 1.1]], [[0.5, 1.1], [0.6, 1.3]]),
    # one point each, paired through the diagonal
    ([[0.0, 10.0]], [[5.0, 5.0]]),
    # unequal sizes: the FIRST point of dgm1 has no partner and must go to the
    # diagonal (cost 2), the second one pairs with dgm2's only point
    ([[0.0, 4.0], [10.0, 11.0]], [[10.0, 11.2]]),
    # same the other way round: first point of dgm2 goes to the diagonal
    ([[10.0, 11.2]], [[0.0, 4.0], [10.0, 11.0]]),
    # integers, multiplicities, three surplus points
    ([[0, 2], [0, 2], [0, 2], [7, 9]], [[7, 10]]),
    # empty diagram against two points
    ([], [[1.0, 2.0], [3.0, 7.0]]),
]

failed = False
for dgm1, dgm2 in CASES:
    probs = check(dgm1, dgm2)
    if probs:
        failed = True
        print("violation for dgm1=%r dgm2=%r" % (dgm1, dgm2))
        for p in probs:
            print("   ", p)

if failed:
    print("FAIL")
    sys.exit(1)
print("PASS")
sys.exit(0)
