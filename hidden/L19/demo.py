"""
C19 demo (purity / repeatability of persistent_entropy on a *list* of diagrams).

Run from inside the worktree:
    cd /tmp/wt_L19 && PYTHONPATH=/tmp/wt_L19 /venv/bin/python /tmp/ref_L19/demo.py

Prints PASS and exits 0 when the call leaves its argument alone and is
repeatable; prints FAIL and exits 1 otherwise.
"""
import sys

import numpy as np

from persim import persistent_entropy as pe


def family():
    # the usual shape of ripser output: H0 carries one infinite bar
    h0 = np.array([[0.0, 0.4], [0.0, 0.9], [0.0, 1.5], [0.0, np.inf]])
    h1 = np.array([[0.6, 1.1], [0.7, 2.0]])
    return [h0, h1]


def snapshot(dgms):
    return [(id(d), d.shape, d.dtype.str, d.tobytes()) for d in dgms]


problems = []

# 1. the list handed in must hold the same, unchanged arrays afterwards
dgms = family()
before = snapshot(dgms)
first = pe.persistent_entropy(dgms)
after = snapshot(dgms)
if len(dgms) != 2 or after != before:
    problems.append(
        "argument list changed by the call: H0 now has shape %s (was (4, 2))"
        % (dgms[0].shape,)
    )

# 2. a call with other options on the same list must see the same data
#    as it does on a fresh, equal-valued list
mixed = pe.persistent_entropy(dgms, keep_inf=True, val_inf=3.0)
fresh = pe.persistent_entropy(family(), keep_inf=True, val_inf=3.0)
if mixed.tobytes() != fresh.tobytes():
    problems.append(
        "keep_inf=True result after an earlier default call: %r, on fresh data: %r"
        % (mixed, fresh)
    )

# 3. plain repetition, and the keep_inf=True route leaves the list alone too
dgms = family()
before = snapshot(dgms)
r1 = pe.persistent_entropy(dgms, keep_inf=True, val_inf=3.0)
r2 = pe.persistent_entropy(dgms, keep_inf=True, val_inf=3.0)
if snapshot(dgms) != before:
    problems.append("argument list changed by the keep_inf=True call")
if r1.tobytes() != r2.tobytes():
    problems.append("repeated call differs: %r vs %r" % (r1, r2))
if not np.isinf(dgms[0][-1, 1]):
    problems.append("infinite bar of the caller's H0 diagram was overwritten")

# 4. a single array (not a list) is never touched
one = family()[0]
raw = one.tobytes()
pe.persistent_entropy(one)
if one.tobytes() != raw or one.shape != (4, 2):
    problems.append("single array argument changed")

if problems:
    print("FAIL")
    for p in problems:
        print(" -", p)
    sys.exit(1)
print("PASS")
sys.exit(0)
