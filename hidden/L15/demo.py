"""C15 demo: the sliced Wasserstein distance must not change when both diagrams
are translated along the diagonal (also into negative coordinates).

Run from inside the worktree so that its copy of persim is imported:
    cd /tmp/wt_L15 && PYTHONPATH=/tmp/wt_L15 /venv/bin/python /tmp/ref_L15/demo.py
Prints PASS and exits 0 when the property holds, prints FAIL and exits 1 otherwise.
"""
import sys
import warnings

warnings.filterwarnings("ignore")

import matplotlib

matplotlib.use("Agg")

import numpy as np
import persim
from persim import sliced_wasserstein

print("persim imported from", persim.__file__)

# two diagrams that differ by small features (1e-4 .. 3e-4) next to large ones
A = np.array([[0.0, 1.0], [0.2, 0.9], [0.4, 0.45]])
B = np.array([[0.0, 1.0001], [0.2, 0.9003]])

RTOL = 1e-6
ok = True

base = float(sliced_wasserstein(A, B))
print("sw(A, B)                = %.12g" % base)

# 1. translation along the diagonal, positive and negative offsets
for t in (100.0, -250.0, 1000.0):
    moved = float(sliced_wasserstein(A + t, B + t))
    rel = abs(moved - base) / base
    good = rel <= RTOL
    ok &= good
    print("sw(A%+g, B%+g) = %.12g   relative change %.2e   %s"
          % (t, t, moved, rel, "ok" if good else "VIOLATION"))

# 2. the small difference between two nearly equal diagrams must survive the translation
C = np.array([[0.0, 1.0]])
D = np.array([[0.0, 1.0001]])
near = float(sliced_wasserstein(C, D))
far = float(sliced_wasserstein(C - 500.0, D - 500.0))
rel = abs(far - near) / near
good = rel <= RTOL
ok &= good
print("sw(C, D) = %.12g ; sw(C-500, D-500) = %.12g   relative change %.2e   %s"
      % (near, far, rel, "ok" if good else "VIOLATION"))

# 3. still symmetric and zero on a reordering after the translation (sanity)
sym = abs(float(sliced_wasserstein(A - 250, B - 250)) - float(sliced_wasserstein(B - 250, A - 250)))
zero = float(sliced_wasserstein(A - 250, (A - 250)[::-1]))
good = sym <= RTOL * base and zero == 0
ok &= good
print("symmetry defect %.2e, distance to a reordering %.2e   %s" % (sym, zero, "ok" if good else "VIOLATION"))

if ok:
    print("PASS")
    sys.exit(0)
print("FAIL")
sys.exit(1)
