"""C20 demo: a matching plot draws one segment per matched pair, joining the two
points, or a point and its perpendicular foot on the diagonal.

Run from inside the worktree:
    cd /tmp/wt_T20 && PYTHONPATH=/tmp/wt_T20 /venv/bin/python /tmp/ref_T20/demo.py
Prints PASS / exits 0 when every drawn segment is where the matching says,
prints FAIL / exits 1 otherwise.
"""
import sys
import warnings

import matplotlib

matplotlib.use("Agg")
import matplotlib.pyplot as plt
import numpy as np

import persim

warnings.simplefilter("ignore")


def expected_segments(dgm1, dgm2, matching):
    segs = []
    for i, j, _ in matching:
        i, j = int(i), int(j)
        if i == -1 and j == -1:
            continue
        if i == -1:
            p = dgm2[j].astype(float)
            q = np.full(2, p.sum() / 2.0)  # perpendicular foot on the diagonal
        elif j == -1:
            p = dgm1[i].astype(float)
            q = np.full(2, p.sum() / 2.0)
        else:
            p, q = dgm1[i].astype(float), dgm2[j].astype(float)
        segs.append(np.array([p, q]))
    return segs


def drawn_segments(ax):
    # every line on the axes except the guides of plot_diagrams: the diagonal
    # (drawn with the ax_color array) and the labelled infinity line
    out = []
    for ln in ax.lines:
        xy = np.asarray(ln.get_xydata(), dtype=float)
        c = ln.get_color()
        if isinstance(c, np.ndarray) or ln.get_label() == r"$\infty$":
            continue
        if xy.shape == (2, 2):
            out.append(xy)
    return out


def check(plot, dist, dgm1, dgm2, what):
    _, matching = dist(dgm1, dgm2, matching=True)
    plt.close("all")
    fig, ax = plt.subplots()
    plot(dgm1, dgm2, matching, ax=ax)
    want = expected_segments(dgm1, dgm2, matching)
    got = drawn_segments(ax)
    ok = len(want) == len(got)
    if ok:
        for w, g in zip(want, got):
            if not np.allclose(w, g, rtol=1e-6, atol=1e-9):
                ok = False
                print("  %s: expected segment %s -> %s, drawn %s -> %s"
                      % (what, w[0], w[1], g[0], g[1]))
    else:
        print("  %s: %d segments expected, %d drawn" % (what, len(want), len(got)))
    return ok


def main():
    ok = True
    # float diagrams (what the test-suite exercises)
    f1 = np.array([[0.1, 0.2], [0.2, 0.4], [1.0, 3.5]])
    f2 = np.array([[0.1, 0.2], [0.3, 0.45]])
    # integer-typed diagrams, e.g. filtration values that are step counts:
    # [0, 5] and [2, 9] have no partner and are matched to the diagonal
    i1 = np.array([[0, 5], [1, 2], [10, 12]])
    i2 = np.array([[10, 13], [2, 9]])
    for name, a, b in [("float", f1, f2), ("int", i1, i2), ("int/float", i1, f2)]:
        ok &= check(persim.bottleneck_matching, persim.bottleneck, a, b, "bottleneck_matching " + name)
        ok &= check(persim.wasserstein_matching, persim.wasserstein, a, b, "wasserstein_matching " + name)
    print("PASS" if ok else "FAIL")
    return 0 if ok else 1


if __name__ == "__main__":
    sys.exit(main())
