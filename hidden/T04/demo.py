"""Demo for property C04 (persistence image pixels are weighted kernel mass over each pixel).

One imager, Gaussian kernel, only the long-standing 'sigma' spelling of kernel_params is used.
The image is computed, the covariance is then adjusted in place on the imager
(pimgr.kernel_params["sigma"] = ...), and the image is computed again.  Both images are compared
with an independent reference: weight * integral of the bivariate normal *density* over each pixel,
by tensor Gauss-Legendre quadrature (no CDFs involved).

Run from inside the tree under test:
    cd <tree> && PYTHONPATH=<tree> /venv/bin/python /tmp/ref_T04/demo.py
Prints PASS / exits 0 when both images match the reference, prints FAIL / exits 1 otherwise.
"""
import sys
import warnings

import matplotlib

matplotlib.use("Agg")
import numpy as np

warnings.simplefilter("ignore", DeprecationWarning)

from persim import PersistenceImager  # noqa: E402

GL_X, GL_W = np.polynomial.legendre.leggauss(40)


def reference_image(dgm_bd, cov, b_edges, p_edges, power=1.0):
    """sum_k  pers_k**power * integral over the pixel of N(mu_k, cov), by quadrature of the pdf."""
    cov = np.asarray(cov, dtype=float)
    icov = np.linalg.inv(cov)
    norm = 1.0 / (2.0 * np.pi * np.sqrt(np.linalg.det(cov)))
    img = np.zeros((len(b_edges) - 1, len(p_edges) - 1))
    for b, d in dgm_bd:
        p = d - b
        for i in range(len(b_edges) - 1):
            xb = 0.5 * (b_edges[i + 1] - b_edges[i]) * GL_X + 0.5 * (b_edges[i + 1] + b_edges[i])
            wb = 0.5 * (b_edges[i + 1] - b_edges[i]) * GL_W
            for j in range(len(p_edges) - 1):
                xp = 0.5 * (p_edges[j + 1] - p_edges[j]) * GL_X + 0.5 * (p_edges[j + 1] + p_edges[j])
                wp = 0.5 * (p_edges[j + 1] - p_edges[j]) * GL_W
                X, Y = np.meshgrid(xb - b, xp - p, indexing="ij")
                q = icov[0, 0] * X * X + 2 * icov[0, 1] * X * Y + icov[1, 1] * Y * Y
                img[i, j] += (p ** power) * norm * (wb[:, None] * wp[None, :] * np.exp(-0.5 * q)).sum()
    return img


def main():
    dgm = np.array([[0.20, 0.65], [0.55, 0.90], [0.70, 1.55], [0.10, 0.15]])  # (birth, death)
    b_edges = np.linspace(0.0, 1.0, 5)
    p_edges = np.linspace(0.0, 1.0, 5)

    cov_first = [[0.02, 0.0], [0.0, 0.02]]
    cov_second = [[0.08, 0.03], [0.03, 0.05]]

    pimgr = PersistenceImager(
        birth_range=(0.0, 1.0),
        pers_range=(0.0, 1.0),
        pixel_size=0.25,
        kernel_params={"sigma": cov_first},
    )
    assert pimgr.resolution == (4, 4)

    ok = True

    img1 = pimgr.transform(dgm, skew=True)
    ref1 = reference_image(dgm, cov_first, b_edges, p_edges)
    err1 = np.abs(img1 - ref1).max()
    print("first image  (sigma = %s): max |image - reference| = %.3e" % (cov_first, err1))
    ok &= err1 < 1e-6

    # adjust the kernel on the existing imager, with the spelling the imager was built with
    pimgr.kernel_params["sigma"] = cov_second
    img2 = pimgr.transform(dgm, skew=True)
    ref2 = reference_image(dgm, cov_second, b_edges, p_edges)
    err2 = np.abs(img2 - ref2).max()
    print("second image (sigma = %s): max |image - reference| = %.3e" % (cov_second, err2))
    if err2 >= 1e-6:
        print("   second image vs reference of the FIRST covariance: %.3e" % np.abs(img2 - ref1).max())
        print("   imager state:", pimgr)
    ok &= err2 < 1e-6

    if ok:
        print("PASS")
        return 0
    print("FAIL")
    return 1


if __name__ == "__main__":
    sys.exit(main())
