"""
Demo for property C17 (mGH accepts every graph representation and degrades
gracefully).  Run from inside the worktree:

    cd /tmp/wt_M17 && PYTHONPATH=/tmp/wt_M17 /venv/bin/python /tmp/ref_M17/demo.py

Prints PASS / exits 0 when the property holds on the probes below,
prints FAIL / exits 1 otherwise.
"""
import sys
import warnings

import numpy as np
import scipy.sparse as sps

from persim import gromov_hausdorff

failures = []


def expect(ok, what):
    if not ok:
        failures.append(what)


def path(n):
    A = np.zeros((n, n), dtype=int)
    A[np.arange(n - 1), np.arange(1, n)] = 1
    return A


def clique(n):
    return np.triu(np.ones((n, n), dtype=int), 1)


# Graphs whose exact mGH distances are known:
#   * to the one-point space the distance is diam/2;
#   * between cliques of different sizes it is 1/2.
P5, K1, K3, P3 = path(5), clique(1), clique(3), path(3)
# P5 and K3 as a disconnected graph: P5 plus a separate edge / K3 plus an
# isolated vertex (largest components are P5 and K3 again).
P5_plus_edge = np.zeros((7, 7), dtype=int)
P5_plus_edge[:5, :5] = P5
P5_plus_edge[5, 6] = 1
exact = {(0, 1): 2.0, (1, 2): 0.5, (1, 3): 1.0}          # indices into `graphs`
graphs = [P5, K1, K3, P3]

representations = {
    "nested lists, upper triangle": lambda A: A.tolist(),
    "dense, symmetric": lambda A: A + A.T,
    "csr, upper triangle": lambda A: sps.csr_matrix(A),
    "csc, symmetric": lambda A: sps.csc_matrix(A + A.T),
}

for seed in (0, 1, 2):
    for name, rep in representations.items():
        As = [rep(A) for A in graphs]
        np.random.seed(seed)
        lbs, ubs = gromov_hausdorff(As)
        tag = "[%s, seed %d] " % (name, seed)
        expect(lbs.shape == (4, 4) and ubs.shape == (4, 4), tag + "shape")
        expect(np.array_equal(lbs, lbs.T) and np.array_equal(ubs, ubs.T), tag + "symmetric")
        expect(not lbs.diagonal().any() and not ubs.diagonal().any(), tag + "zero diagonal")
        expect(np.all(lbs <= ubs), tag + "lb <= ub")
        for (i, j), d in exact.items():
            expect(lbs[i, j] <= d <= ubs[i, j],
                   tag + "entry (%d, %d) = [%s, %s] does not bracket the distance %s"
                   % (i, j, lbs[i, j], ubs[i, j], d))
        # Lower bounds are deterministic: the collection entry must be the
        # lower bound of the very same pair.
        for i in range(4):
            for j in range(i + 1, 4):
                lb, ub = gromov_hausdorff(As[i], As[j])
                expect(lb == lbs[i, j], tag + "lbs[%d, %d] = %s but the pair call gives lb = %s"
                       % (i, j, lbs[i, j], lb))
                expect(lb <= ub, tag + "pair (%d, %d): lb > ub" % (i, j))

# Disconnected graphs: warning + largest component, in a pair and in a collection.
for name, rep in representations.items():
    with warnings.catch_warnings(record=True) as caught:
        warnings.simplefilter("always")
        try:
            np.random.seed(3)
            lb, ub = gromov_hausdorff(rep(P5_plus_edge), rep(K1))
            lbs, ubs = gromov_hausdorff([rep(K3), rep(P5_plus_edge), rep(K1)])
        except Exception as e:                       # must degrade, not raise
            expect(False, "[%s] disconnected graph raised %r" % (name, e))
            continue
    expect(any("largest connected component" in str(w.message) for w in caught),
           "[%s] no warning for the disconnected graph" % name)
    expect(lb <= 2.0 <= ub, "[%s] disconnected pair: [%s, %s] does not bracket 2.0" % (name, lb, ub))
    expect(lbs[1, 2] <= 2.0 <= ubs[1, 2] and lbs[0, 2] <= 0.5 <= ubs[0, 2],
           "[%s] disconnected graph in a collection: brackets %s / %s" % (name, lbs, ubs))
    expect(np.array_equal(lbs, lbs.T) and np.array_equal(ubs, ubs.T) and not lbs.diagonal().any(),
           "[%s] disconnected graph in a collection: shape of the result" % name)

if failures:
    print("FAIL")
    for f in failures[:12]:
        print("  -", f)
    if len(failures) > 12:
        print("  ... and %d more" % (len(failures) - 12))
    sys.exit(1)
print("PASS")
sys.exit(0)
