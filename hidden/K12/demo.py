"""C12 demo: the imager geometry must stay self-consistent for ranges and pixel
sizes whose quotient is not exactly representable (1/3, 0.1 on 1.05, ...).

Uses public attributes and transform() only.  Prints PASS / exits 0 when every
configuration history yields images of exactly the reported resolution and a
narrow point lands in the pixel that the reported geometry says it is in;
prints FAIL / exits 1 otherwise.

Run from inside the worktree:
    cd /tmp/wt_K12 && PYTHONPATH=/tmp/wt_K12 /venv/bin/python /tmp/ref_K12/demo.py
"""
import sys
import warnings

import matplotlib

matplotlib.use("Agg")
warnings.filterwarnings("ignore")

import numpy as np  # noqa: E402

from persim import PersistenceImager  # noqa: E402

NARROW = {"sigma": [[1e-8, 0.0], [0.0, 1e-8]]}
failures = []


def check(label, im, asked_birth=None, asked_pers=None):
    """Check the C12 invariants on the imager's public surface."""
    px = im.pixel_size
    (b0, b1), (p0, p1) = im.birth_range, im.pers_range
    nb, npers = im.resolution
    tol = 1e-9

    def bad(msg):
        failures.append("%s: %s" % (label, msg))

    if abs(nb * px - im.width) > tol or abs(npers * px - im.height) > tol:
        bad("resolution*pixel_size != width/height")
    if abs((b1 - b0) - im.width) > tol or abs((p1 - p0) - im.height) > tol:
        bad("covered range does not span width/height")
    for asked, (lo, hi), name in (
        (asked_birth, (b0, b1), "birth"),
        (asked_pers, (p0, p1), "pers"),
    ):
        if asked is None:
            continue
        if lo > asked[0] + tol or hi < asked[1] - tol:
            bad("%s range does not contain what was asked for" % name)
        if (hi - lo) - (asked[1] - asked[0]) > px + tol:
            bad("%s range exceeds the request by more than one pixel" % name)

    # a narrow point in the middle of pixel (i, j), in birth-persistence coordinates
    i, j = nb - 1, npers // 2
    pt = np.array([[b0 + (i + 0.5) * px, p0 + (j + 0.5) * px]])
    try:
        img = im.transform(pt, skew=False)
    except Exception as exc:  # the mesh and the resolution disagree
        bad("transform raised %s: %s" % (type(exc).__name__, exc))
        return
    if img.shape != (nb, npers):
        bad("image shape %s != resolution %s" % (img.shape, (nb, npers)))
        return
    if np.unravel_index(np.argmax(img), img.shape) != (i, j):
        bad("narrow point did not land in the pixel the geometry says")


def imager(**kw):
    return PersistenceImager(kernel_params=NARROW, **kw)


# 1. constructor, pixel size 1/3 on integer ranges
im = imager(birth_range=(0, 1), pers_range=(0, 2), pixel_size=1 / 3)
check("ctor (0,1)x(0,2) px=1/3", im, (0, 1), (0, 2))

# 2. constructor, range that is not a multiple of the pixel size
im = imager(birth_range=(0, 1.05), pers_range=(0, 1), pixel_size=0.1)
check("ctor (0,1.05)x(0,1) px=0.1", im, (0, 1.05), (0, 1))

# 3. history: exact start, then range assignment with an inexact quotient
im = imager(pixel_size=0.1)
check("default px=0.1", im, (0.0, 1.0), (0.0, 1.0))
im.birth_range = (0, 1.05)
check("then birth_range=(0,1.05)", im, asked_birth=(0, 1.05))
im.pers_range = (0.0, 0.7)
check("then pers_range=(0,0.7)", im, asked_pers=(0.0, 0.7))

# 4. history: pixel-size change on integer ranges
im = imager(birth_range=(0, 2), pers_range=(0, 2), pixel_size=1)
before_b, before_p = im.birth_range, im.pers_range
im.pixel_size = 1 / 3
check("pixel_size 1 -> 1/3", im, before_b, before_p)

# 5. fit on data, then a pixel-size change, then a second fit
dgm = np.array([[0.0, 0.3], [0.25, 1.3], [1.05, 1.4]])
im = imager(pixel_size=0.1)
im.fit(dgm, skew=True)
bp = np.column_stack([dgm[:, 0], dgm[:, 1] - dgm[:, 0]])
check(
    "fit px=0.1",
    im,
    (bp[:, 0].min(), bp[:, 0].max()),
    (bp[:, 1].min(), bp[:, 1].max()),
)
before_b, before_p = im.birth_range, im.pers_range
im.pixel_size = 0.3
check("fit then pixel_size=0.3", im, before_b, before_p)
im.fit([dgm, dgm + 1 / 3], skew=True)
check("second fit on two diagrams", im)

if failures:
    print("FAIL")
    for f in failures:
        print("  -", f)
    sys.exit(1)
print("PASS")
sys.exit(0)
