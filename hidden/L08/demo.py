"""
C08 demo: grid landscapes stay within half a step of the true landscape.

Run from inside the worktree so that the local copy of persim is imported:

    cd /tmp/wt_L08 && PYTHONPATH=/tmp/wt_L08 /venv/bin/python /tmp/ref_L08/demo.py

For a few finite diagrams the approximate landscape is built on the DEFAULT
grid (no start/stop passed, so the constructor derives them from the diagram)
and every sampled value is compared with the true landscape at that grid point
and depth.  The same diagrams with the rows sorted by birth are used as a
control.  Exits 0 / prints PASS when the bound holds, exits 1 / prints FAIL
otherwise.
"""
import sys
import warnings

import numpy as np

warnings.filterwarnings("ignore")

from persim import PersLandscapeApprox, PersistenceLandscaper  # noqa: E402


def true_landscape(bars, xs, depth):
    """depth x len(xs) array: k-th largest tent value at every x."""
    b = bars[:, 0][:, None]
    d = bars[:, 1][:, None]
    tents = np.clip(np.minimum(xs[None, :] - b, d - xs[None, :]), 0, None)
    tents = -np.sort(-tents, axis=0)
    out = np.zeros((max(depth, len(bars)), len(xs)))
    out[: len(bars)] = tents
    return out


def check(name, dgm, num_steps, failures):
    bars = np.asarray(dgm, dtype=float)
    pla = PersLandscapeApprox(dgms=[dgm], hom_deg=0, num_steps=num_steps)
    lo, hi = bars[:, 0].min(), bars[:, 1].max()

    # the default grid has to contain every birth and death
    if not (pla.start <= lo and pla.stop >= hi):
        failures.append(
            f"{name}: default grid [{pla.start}, {pla.stop}] does not cover "
            f"the diagram [{lo}, {hi}]"
        )

    xs, step = np.linspace(pla.start, pla.stop, num_steps, retstep=True)
    got = np.asarray(pla.values, dtype=float)
    ref = true_landscape(bars, xs, len(got))
    full = np.zeros_like(ref)
    full[: len(got)] = got  # depths beyond those returned count as zero
    err = np.abs(full - ref).max()
    if err > step / 2 + 1e-9:
        failures.append(
            f"{name}: max |approx - true| = {err:.4f} > step/2 = {step / 2:.4f}"
        )

    # the transformer must return exactly these sampled values
    tr = PersistenceLandscaper(hom_deg=0, num_steps=num_steps).fit_transform([dgm])
    if tr.shape != got.shape or not np.array_equal(tr, got):
        failures.append(f"{name}: transformer output differs from PersLandscapeApprox")


def main():
    failures = []

    # end-points on the grid: the approximation must be exact
    d1 = np.array([[2, 6], [0, 4], [1, 3]])
    # off-grid end-points, the earliest bar is not listed first
    d2 = np.array([[1.3, 2.9], [0.2, 3.1], [0.75, 1.6], [2.2, 3.7]])
    # negative coordinates
    d3 = np.array([[-1.0, 2.0], [-3.5, 0.5], [-2.0, -0.25]])

    for name, dgm, n in [("d1", d1, 7), ("d2", d2, 36), ("d3", d3, 23)]:
        check(name, dgm, n, failures)
        # control: same bars listed by increasing birth
        check(name + "/sorted", dgm[np.argsort(dgm[:, 0], kind="stable")], n, failures)

    if failures:
        for f in failures:
            print("  " + f)
        print("FAIL")
        return 1
    print("PASS")
    return 0


if __name__ == "__main__":
    sys.exit(main())
