"""C08 demo: grid landscapes stay within half a step of the true landscape,
for every homological degree present in the list of diagrams.

Run from inside the worktree:
    cd /tmp/wt_T08 && PYTHONPATH=/tmp/wt_T08 /venv/bin/python /tmp/ref_T08/demo.py
Prints PASS and exits 0 when the property holds, prints FAIL and exits 1 otherwise.
"""
import sys
import warnings

import numpy as np

warnings.filterwarnings("ignore")

from persim import PersLandscapeApprox, PersistenceLandscaper  # noqa: E402


def true_landscape(bars, grid, depth):
    """k-th largest tent value at every grid point, k = 1..depth (zero beyond)."""
    b = bars[:, 0][:, None]
    d = bars[:, 1][:, None]
    tents = np.maximum(0.0, np.minimum(grid[None, :] - b, d - grid[None, :]))
    tents = -np.sort(-tents, axis=0)
    out = np.zeros((depth, grid.size))
    k = min(depth, tents.shape[0])
    out[:k] = tents[:k]
    return out


def check(values, bars, start, stop, num_steps, what):
    grid, step = np.linspace(start, stop, num_steps, retstep=True)
    values = np.asarray(values)
    if values.dtype.kind not in "fi" or values.ndim != 2 or values.shape[1] != num_steps:
        return f"{what}: values are not a depth x grid array ({values!r})"
    depth = max(len(values), len(bars))
    got = np.zeros((depth, num_steps))
    got[: len(values)] = values
    err = np.abs(got - true_landscape(bars, grid, depth)).max()
    if err > step / 2 + 1e-9:
        return f"{what}: off by {err:.4f} > half a step {step / 2:.4f}"
    return None


def main():
    # what ripser(..., maxdim=3) hands back for a small point cloud: components,
    # no loops at all (a (0, 2) array), two voids, one 3-cell
    H0 = np.array([[0.0, 0.7], [0.0, 1.3], [0.0, 2.1]])
    H1 = np.empty((0, 2))
    H2 = np.array([[1.2, 3.9], [2.0, 3.1], [1.5, 2.4]])
    H3 = np.array([[2.6, 2.9]])
    dgms = [H0, H1, H2, H3]
    start, stop, num_steps = 0.0, 4.0, 41

    problems = []
    for hom_deg, bars in ((0, H0), (2, H2), (3, H3)):
        try:
            pla = PersLandscapeApprox(
                dgms=dgms, hom_deg=hom_deg, start=start, stop=stop, num_steps=num_steps
            )
            problems.append(
                check(pla.values, bars, start, stop, num_steps, f"PersLandscapeApprox, degree {hom_deg}")
            )
        except Exception as e:  # noqa: BLE001
            problems.append(f"PersLandscapeApprox, degree {hom_deg}: {type(e).__name__}: {e}")
        try:
            tr = PersistenceLandscaper(
                hom_deg=hom_deg, start=start, stop=stop, num_steps=num_steps
            )
            problems.append(
                check(tr.fit_transform(dgms), bars, start, stop, num_steps, f"PersistenceLandscaper, degree {hom_deg}")
            )
        except Exception as e:  # noqa: BLE001
            problems.append(f"PersistenceLandscaper, degree {hom_deg}: {type(e).__name__}: {e}")

    problems = [p for p in problems if p]
    for p in problems:
        print("  ", p)
    if problems:
        print("FAIL")
        return 1
    print("PASS")
    return 0


if __name__ == "__main__":
    sys.exit(main())
