"""C04 demo: persistence-image pixels must equal weighted kernel mass over each pixel.

Diagrams whose coordinates live on a small scale (1e-4, e.g. data recorded in metres for a
sub-millimetre phenomenon) are imaged with Gaussian kernels whose covariance is sized to match
(variances ~1e-8).  The pixel values are compared against an independent reference:
scipy's bivariate-normal CDF at the pixel corners + inclusion-exclusion, evaluated after rescaling
everything to unit scale (the mass a Gaussian gives to a box is invariant under a common rescaling).

Run:  cd <worktree> && PYTHONPATH=<worktree> /venv/bin/python /tmp/ref_H04/demo.py
"""
import sys

import numpy as np
from scipy.stats import multivariate_normal

from persim import PersistenceImager

SCALE = 1e-4
TOL = 1e-6  # relative to the largest pixel of the reference image


def reference_image(bp_pairs, wts, bpnts, ppnts, cov):
    """Sum_k w_k * mass of N(pair_k, cov) on each pixel; all inputs already at unit scale."""
    bb, pp = np.meshgrid(bpnts, ppnts, indexing="ij")
    corners = np.stack([bb, pp], axis=-1)
    img = np.zeros((len(bpnts) - 1, len(ppnts) - 1))
    for (b, p), w in zip(bp_pairs, wts):
        cdf = multivariate_normal(mean=[b, p], cov=cov, allow_singular=False).cdf(corners)
        img += w * (cdf[1:, 1:] - cdf[:-1, 1:] - cdf[1:, :-1] + cdf[:-1, :-1])
    return img


def check(name, unit_cov):
    unit_cov = np.asarray(unit_cov, dtype=float)
    # birth-death diagram at unit scale, then shrunk to the small scale
    unit_dgm = np.array([[0.10, 0.95], [0.35, 0.80], [0.60, 1.45], [0.85, 1.10], [0.20, 0.55]])
    dgm = unit_dgm * SCALE

    pim = PersistenceImager(
        birth_range=(0.0, 1.0 * SCALE),
        pers_range=(0.0, 1.0 * SCALE),
        pixel_size=0.1 * SCALE,
        weight="linear_ramp",
        weight_params={"low": 0.0, "high": 1.0, "start": 0.0, "end": 1.0 * SCALE},
        kernel="gaussian",
        kernel_params={"sigma": unit_cov * SCALE**2},
    )
    img = pim.transform(dgm, skew=True)

    # independent reference at unit scale
    births = unit_dgm[:, 0]
    perss = unit_dgm[:, 1] - unit_dgm[:, 0]
    wts = np.clip(perss, 0.0, 1.0)  # linear ramp 0 -> 1 over persistence [0, 1]
    ref = reference_image(
        np.column_stack([births, perss]), wts, pim._bpnts / SCALE, pim._ppnts / SCALE, unit_cov
    )

    err = np.max(np.abs(img - ref)) / np.max(np.abs(ref))
    ok = img.shape == ref.shape and err < TOL
    print("  %-34s sigma=%s  rel.err=%.3e  %s" % (name, (unit_cov * SCALE**2).tolist(), err, "ok" if ok else "MISMATCH"))
    return ok


def main():
    results = [
        check("isotropic (control)", [[0.02, 0.0], [0.0, 0.02]]),
        check("axis-aligned, unequal variances", [[0.01, 0.0], [0.0, 0.09]]),
        check("correlated, r=0.6", [[0.04, 0.024], [0.024, 0.04]]),
        check("correlated, r=-0.8", [[0.04, -0.032], [-0.032, 0.04]]),
    ]
    if all(results):
        print("PASS")
        return 0
    print("FAIL")
    return 1


if __name__ == "__main__":
    sys.exit(main())
