"""
C02 demo: the distance returned by persim.wasserstein must be the true
min-sum partial-matching cost -- also when the matching table is requested.

Run from inside the worktree:
    cd /tmp/wt_K02 && PYTHONPATH=/tmp/wt_K02 /venv/bin/python /tmp/ref_K02/demo.py
Prints PASS / exits 0 when the property holds, FAIL / exits 1 otherwise.
"""
import itertools
import sys
import warnings

import numpy as np

import persim
from persim import wasserstein


def brute_force(A, B):
    """Minimum over all partial matchings, by enumeration."""
    A = [tuple(p) for p in A]
    B = [tuple(p) for p in B]
    diag = lambda p: (p[1] - p[0]) / np.sqrt(2)
    best = np.inf
    m, n = len(A), len(B)
    for k in range(min(m, n) + 1):
        for sa in itertools.combinations(range(m), k):
            rest_a = sum(diag(A[i]) for i in range(m) if i not in sa)
            for sb in itertools.permutations(range(n), k):
                rest_b = sum(diag(B[j]) for j in range(n) if j not in sb)
                cross = sum(np.hypot(A[i][0] - B[j][0], A[i][1] - B[j][1])
                            for i, j in zip(sa, sb))
                best = min(best, rest_a + rest_b + cross)
    return best


def main():
    print("persim imported from", persim.__file__)
    cases = [
        # the suite's own test_matching input (its distance is never checked)
        (np.array([[0.5, 1], [0.6, 1.1]]),
         np.array([[0.5, 1.1], [0.6, 1.1], [0.8, 1.1], [1.0, 1.1]])),
        # a short-lived first point that is cheaper to send to the diagonal
        (np.array([[0.0, 0.1], [1.0, 3.0]]), np.array([[1.0, 3.2]])),
        (np.array([[2.0, 5.0]]), np.array([[0.3, 0.4], [2.0, 5.5], [7.0, 7.0]])),
        # everything is matched across: no diagonal involved
        (np.array([[0.0, 1.0], [2.0, 4.0]]), np.array([[0.0, 1.1], [2.0, 4.1]])),
    ]
    rng = np.random.default_rng(7)
    for _ in range(20):
        m, n = rng.integers(1, 4), rng.integers(1, 4)
        a = rng.uniform(-2, 2, size=(m, 1))
        b = rng.uniform(-2, 2, size=(n, 1))
        cases.append((np.hstack((a, a + rng.uniform(0, 2, size=(m, 1)))),
                      np.hstack((b, b + rng.uniform(0, 2, size=(n, 1))))))

    failures = 0
    for A, B in cases:
        want = brute_force(A, B)
        with warnings.catch_warnings():
            warnings.simplefilter("ignore")
            plain = wasserstein(A, B)
            with_table, table = wasserstein(A, B, matching=True)
        for label, got in (("matching=False", plain), ("matching=True", with_table)):
            if not np.isclose(got, want, rtol=1e-6, atol=1e-9):
                failures += 1
                if failures <= 6:
                    print("  %s: got %r, true min-sum cost %r\n    dgm1=%s\n    dgm2=%s"
                          % (label, got, want, A.tolist(), B.tolist()))
    if failures:
        print("FAIL (%d wrong distances over %d diagram pairs)" % (failures, len(cases)))
        return 1
    print("PASS (%d diagram pairs, both matching=False and matching=True)" % len(cases))
    return 0


if __name__ == "__main__":
    sys.exit(main())
