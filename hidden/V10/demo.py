"""C10 demo: p-norms of grid landscapes equal the integrals they name.

Property-level checks only (no reference to implementation details):
  * p-norm of a grid landscape == p-th root of the integral of |f|^p of the
    piecewise-linear functions through its values (independent trapezoid-free
    closed form, computed here with exact per-segment integration),
  * absolute homogeneity ||c P|| = |c| ||P||,
  * ||P - P|| = 0,
  * the results do not depend on which norms were asked for earlier.

Run from inside the tree under test:
  cd <tree> && PYTHONPATH=<tree> /venv/bin/python /tmp/ref_V10/demo.py
Prints PASS / exits 0 when the property holds, FAIL / exits 1 otherwise.
"""
import sys

import matplotlib

matplotlib.use("Agg")
import numpy as np

from persim.landscapes import PersLandscapeApprox


def integral_abs_p(xs, ys, p):
    """integral of |f|^p for the piecewise-linear f through (xs, ys)"""
    total = 0.0
    for x0, x1, y0, y1 in zip(xs, xs[1:], ys, ys[1:]):
        dx = x1 - x0
        if y0 == y1:
            total += abs(y0) ** p * dx
        elif (y0 < 0 < y1) or (y1 < 0 < y0):
            # split at the zero crossing
            t = abs(y0) / (abs(y0) + abs(y1))
            total += abs(y0) ** p * (t * dx) / (p + 1)
            total += abs(y1) ** p * ((1 - t) * dx) / (p + 1)
        else:
            a, b = abs(y0), abs(y1)
            total += dx * (b ** (p + 1) - a ** (p + 1)) / ((p + 1) * (b - a))
    return total


def reference_norm(pl, p):
    xs = np.linspace(pl.start, pl.stop, pl.num_steps)
    return sum(integral_abs_p(xs, row, p) for row in pl.values) ** (1.0 / p)


def check(name, got, want, failures):
    ok = np.isclose(got, want, rtol=1e-9, atol=1e-12)
    print(f"  {'ok ' if ok else 'BAD'} {name}: got {got:.12g}, expected {want:.12g}")
    if not ok:
        failures.append(name)


def main():
    failures = []
    P = PersLandscapeApprox(
        dgms=[np.array([[0.0, 6.0], [1.0, 4.0], [2.0, 9.0]])],
        start=0,
        stop=10,
        num_steps=41,
    )
    Q = PersLandscapeApprox(
        dgms=[np.array([[0.5, 5.0], [3.0, 8.0]])], start=0, stop=10, num_steps=41
    )
    for p in (1, 2, 3.5):
        print(f"p = {p}")
        # the way a distance / hypothesis-test computation goes: the norms of
        # the landscapes themselves first, then of their combinations
        nP = P.p_norm(p)
        nQ = Q.p_norm(p)
        check("||P||", nP, reference_norm(P, p), failures)
        check("||Q||", nQ, reference_norm(Q, p), failures)

        D = P - Q
        check("||P - Q|| vs integral", D.p_norm(p), reference_norm(D, p), failures)
        S = P + Q
        check("||P + Q|| vs integral", S.p_norm(p), reference_norm(S, p), failures)
        if S.p_norm(p) > nP + nQ + 1e-9:
            print("  BAD triangle inequality")
            failures.append("triangle")

        T = -2.5 * P
        check("||-2.5 P|| = 2.5 ||P||", T.p_norm(p), 2.5 * nP, failures)
        H = Q / 4
        check("||Q / 4|| = ||Q|| / 4", H.p_norm(p), nQ / 4, failures)
        Z = P - P
        check("||P - P|| = 0", Z.p_norm(p), 0.0, failures)
        check("||-Q|| = ||Q||", (-Q).p_norm(p), nQ, failures)

        # the operands are unchanged
        check("||P|| again", P.p_norm(p), nP, failures)
        check("||Q|| again", Q.p_norm(p), nQ, failures)

    # a landscape given by values, combined after its pairs were looked at
    V = PersLandscapeApprox(
        start=0, stop=5, num_steps=6, values=np.array([[0, 1, 2, 2, 1, 0], [0, 0, 1, 0, 0, 0]])
    )
    W = PersLandscapeApprox(start=0, stop=5, num_steps=6, values=np.array([[0, 1, 1, 1, 1, 0]]))
    V.values_to_pairs()
    E = V - 3 * W
    print("values-given landscapes")
    check("||V - 3W||_2 vs integral", E.p_norm(2), reference_norm(E, 2), failures)
    check("sup ||V - 3W||", E.sup_norm(), np.max(np.abs(E.values)), failures)

    if failures:
        print("FAIL:", ", ".join(dict.fromkeys(failures)))
        return 1
    print("PASS")
    return 0


if __name__ == "__main__":
    sys.exit(main())
