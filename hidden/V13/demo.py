"""Demo for property C13 (Gaussian kernel is a valid, accurate bivariate normal CDF,
far tails included, on both sides of the |r| = 0.925 branch threshold).

Run from inside the tree under test:
    cd <tree> && PYTHONPATH=<tree> /venv/bin/python /tmp/ref_V13/demo.py
Prints PASS and exits 0 when the property holds on the probes below, prints FAIL and exits 1 otherwise.
"""
import sys
import warnings

import matplotlib
matplotlib.use("Agg")
import numpy as np
from scipy.integrate import quad
from scipy.special import ndtr

warnings.simplefilter("ignore")

from persim import PersistenceImager, images_kernels as K

TOL = 1e-7
problems = []


def reference(h, k, r):
    """Plackett's formula, integrated adaptively: P(X <= h, Y <= k) for a standard pair with correlation r."""
    f = lambda t: np.exp(-(h * h + k * k - 2.0 * h * k * np.sin(t)) / (2.0 * np.cos(t) ** 2))
    v, _ = quad(f, 0.0, np.arcsin(r), epsabs=1e-13, epsrel=1e-12, limit=400)
    return ndtr(h) * ndtr(k) + v / (2.0 * np.pi)


def check_cdf(label, x, y, mu, sigma):
    """Values finite, in [0, 1] and inside the Frechet bounds max(0, Fx+Fy-1) <= F <= min(Fx, Fy) (to TOL)."""
    sigma = np.asarray(sigma, dtype=float)
    val = K.gaussian(x, y, mu=mu, sigma=sigma)
    fx = ndtr((x - mu[0]) / np.sqrt(sigma[0, 0]))
    fy = ndtr((y - mu[1]) / np.sqrt(sigma[1, 1]))
    lo = np.maximum(0.0, fx + fy - 1.0) - TOL
    hi = np.minimum(fx, fy) + TOL
    bad = ~np.isfinite(val) | (val < -TOL) | (val > 1 + TOL) | (val < lo) | (val > hi)
    if bad.any():
        i = int(np.flatnonzero(bad)[0])
        problems.append("%s: %d of %d values invalid, e.g. F(%g, %g) = %r (bounds [%g, %g])"
                        % (label, int(bad.sum()), bad.size, x[i], y[i], val[i], max(lo[i], 0), min(hi[i], 1)))
    return val


# 1. accuracy against the reference at moderate distances, on both sides of every branch threshold
rng = np.random.default_rng(7)
for r in (-0.97, -0.93, -0.92, -0.5, 0.2, 0.31, 0.74, 0.76, 0.92, 0.93, 0.99):
    pts = rng.uniform(-4, 4, size=(40, 2))
    got = K.gaussian(pts[:, 0], pts[:, 1], mu=[0.0, 0.0], sigma=np.array([[1.0, r], [r, 1.0]]))
    ref = np.array([reference(h, k, r) for h, k in pts])
    err = np.nanmax(np.abs(got - ref)) if np.isfinite(got).any() else np.inf
    if not np.isfinite(got).all() or err > TOL:
        problems.append("r=%g: max deviation from the reference CDF %.3g" % (r, err))

# 2. tails: a grid that reaches 25 ... 120 standard deviations in every direction
for r in (-0.99, -0.95, -0.925, -0.9, -0.5, 0.5, 0.9, 0.925, 0.95, 0.99):
    for reach in (25.0, 45.0, 80.0, 120.0):
        g = np.linspace(-reach, reach, 13)
        xx, yy = [a.ravel() for a in np.meshgrid(g, g, indexing="ij")]
        check_cdf("tails r=%g reach=%g sd" % (r, reach), xx, yy, (0.0, 0.0), [[1.0, r], [r, 1.0]])

# 3. same thing in the units a persistence image uses: a narrow, strongly correlated kernel
mu = (0.5, 0.3)
for cov in (0.95e-4, -0.95e-4):
    g = np.linspace(0.0, 1.0, 21)
    xx, yy = [a.ravel() for a in np.meshgrid(g, g, indexing="ij")]
    check_cdf("narrow kernel cov=%g" % cov, xx, yy, mu, [[1e-4, cov], [cov, 1e-4]])

# 4. end to end: the image of one point is a probability mass function on the pixels
pimgr = PersistenceImager(birth_range=(0.0, 1.0), pers_range=(0.0, 1.0), pixel_size=0.05,
                          weight=lambda b, p: np.ones_like(np.atleast_1d(b), dtype=float), weight_params={},
                          kernel_params={"sigma": np.array([[1e-4, 0.95e-4], [0.95e-4, 1e-4]])})
img = pimgr.transform(np.array([[0.5, 0.8]]), skew=True)       # (birth, persistence) = (0.5, 0.3)
if not np.isfinite(img).all():
    problems.append("persistence image of a single point contains %d non-finite pixels" % int((~np.isfinite(img)).sum()))
elif abs(img.sum() - 1.0) > 1e-6 or img.min() < -TOL:
    problems.append("persistence image of a single point: total mass %r, min %r" % (img.sum(), img.min()))

if problems:
    for p in problems[:12]:
        print("  -", p)
    print("FAIL")
    sys.exit(1)
print("PASS")
sys.exit(0)
