"""C04 demo: every pixel of a persistence image equals
    sum_i weight(b_i, p_i) * (kernel mass, centred at (b_i, p_i), over the pixel square)
with (b_i, p_i) the birth-PERSISTENCE coordinates of the diagram points.

The reference value of every pixel is computed here independently of persim's
kernels: exact rectangle overlap for the uniform box, and tensor Gauss-Legendre
quadrature of the Gaussian density over the pixel square for Gaussian kernels.

Run from inside the worktree:
    cd /tmp/wt_J04 && PYTHONPATH=/tmp/wt_J04 /venv/bin/python /tmp/ref_J04/demo.py
Prints PASS / exits 0 when the property holds, prints FAIL / exits 1 otherwise.
"""
import sys

import matplotlib

matplotlib.use("Agg")

import numpy as np

from persim import PersistenceImager

TOL = 1e-6

# birth-death diagram with non-zero births, some points on / outside the imaged region
DGM = np.array(
    [
        [0.0, 1.0],
        [0.5, 1.7],
        [1.2, 1.5],
        [2.0, 3.1],
        [-0.4, 0.9],
        [2.6, 2.9],
    ]
)

GL_X, GL_W = np.polynomial.legendre.leggauss(24)


def box_mass(b0, b1, p0, p1, mu, width, height):
    """Exact mass a uniform box centred at mu gives to [b0,b1]x[p0,p1]."""
    ob = max(0.0, min(b1, mu[0] + width / 2) - max(b0, mu[0] - width / 2))
    op = max(0.0, min(p1, mu[1] + height / 2) - max(p0, mu[1] - height / 2))
    return ob * op / (width * height)


def gauss_mass(b0, b1, p0, p1, mu, cov):
    """Quadrature of the bivariate normal density over [b0,b1]x[p0,p1]."""
    cov = np.asarray(cov, dtype=float)
    icov = np.linalg.inv(cov)
    norm = 1.0 / (2 * np.pi * np.sqrt(np.linalg.det(cov)))
    xb = 0.5 * (b1 - b0) * GL_X + 0.5 * (b1 + b0)
    xp = 0.5 * (p1 - p0) * GL_X + 0.5 * (p1 + p0)
    db = xb[:, None] - mu[0]
    dp = xp[None, :] - mu[1]
    q = icov[0, 0] * db * db + 2 * icov[0, 1] * db * dp + icov[1, 1] * dp * dp
    dens = norm * np.exp(-0.5 * q)
    return 0.25 * (b1 - b0) * (p1 - p0) * float(GL_W @ dens @ GL_W)


def reference_image(pim, dgm, skew, weight_fn, mass_fn):
    pts = np.array(dgm, dtype=float)
    if skew:
        pts[:, 1] = pts[:, 1] - pts[:, 0]
    nb, npx = pim.resolution
    s = pim.pixel_size
    b_lo, p_lo = pim.birth_range[0], pim.pers_range[0]
    img = np.zeros((nb, npx))
    for b, p in pts:
        w = weight_fn(b, p)
        for i in range(nb):
            for j in range(npx):
                img[i, j] += w * mass_fn(
                    b_lo + i * s, b_lo + (i + 1) * s, p_lo + j * s, p_lo + (j + 1) * s, (b, p)
                )
    return img


def ramp(low, high, start, end):
    def f(b, p):
        if p < start:
            return low
        if p > end:
            return high
        return (p - start) * (high - low) / (end - start) + low

    return f


CASES = []

# isotropic Gaussian, given as a scalar variance and as a matrix
for sigma, cov in [(0.25, [[0.25, 0], [0, 0.25]]), ([[0.16, 0.0], [0.0, 0.16]], [[0.16, 0], [0, 0.16]])]:
    CASES.append(
        (
            "isotropic gaussian sigma=%r" % (sigma,),
            dict(kernel="gaussian", kernel_params={"sigma": sigma}, weight="persistence", weight_params={"n": 1.0}),
            lambda b, p: p,
            (lambda c: lambda b0, b1, p0, p1, mu: gauss_mass(b0, b1, p0, p1, mu, c))(cov),
        )
    )

# axis-aligned Gaussian
cov_d = np.array([[0.30, 0.0], [0.0, 0.08]])
CASES.append(
    (
        "diagonal gaussian",
        dict(kernel="gaussian", kernel_params={"sigma": cov_d}, weight="persistence", weight_params={"n": 2.0}),
        lambda b, p: p ** 2.0,
        lambda b0, b1, p0, p1, mu: gauss_mass(b0, b1, p0, p1, mu, cov_d),
    )
)

# correlated Gaussian (r ~ 0.58)
cov_c = np.array([[0.30, 0.10], [0.10, 0.10]])
CASES.append(
    (
        "correlated gaussian",
        dict(
            kernel="gaussian",
            kernel_params={"sigma": cov_c},
            weight="linear_ramp",
            weight_params={"low": 0.2, "high": 1.5, "start": 0.3, "end": 1.0},
        ),
        ramp(0.2, 1.5, 0.3, 1.0),
        lambda b0, b1, p0, p1, mu: gauss_mass(b0, b1, p0, p1, mu, cov_c),
    )
)

# uniform box
CASES.append(
    (
        "uniform box",
        dict(kernel="uniform", kernel_params={"width": 0.9, "height": 0.5}, weight="persistence", weight_params={"n": 1.0}),
        lambda b, p: p,
        lambda b0, b1, p0, p1, mu: box_mass(b0, b1, p0, p1, mu, 0.9, 0.5),
    )
)


def main():
    worst = 0.0
    failures = []
    for name, kwargs, wfn, mfn in CASES:
        for skew in (True, False):
            pim = PersistenceImager(birth_range=(0.0, 2.4), pers_range=(0.0, 1.5), pixel_size=0.3, **kwargs)
            got = pim.transform(DGM, skew=skew)
            ref = reference_image(pim, DGM, skew, wfn, mfn)
            if got.shape != ref.shape:
                failures.append("%s skew=%s: shape %s != %s" % (name, skew, got.shape, ref.shape))
                continue
            err = float(np.max(np.abs(got - ref)))
            worst = max(worst, err)
            print("%-45s skew=%-5s max|image - integral| = %.3e" % (name, skew, err))
            if not err <= TOL:
                i, j = np.unravel_index(np.argmax(np.abs(got - ref)), got.shape)
                failures.append(
                    "%s skew=%s: pixel (%d,%d) image=%.9f integral=%.9f" % (name, skew, i, j, got[i, j], ref[i, j])
                )
    if failures:
        for f in failures:
            print("  violation:", f)
        print("FAIL")
        return 1
    print("worst deviation %.3e <= %.1e" % (worst, TOL))
    print("PASS")
    return 0


if __name__ == "__main__":
    sys.exit(main())
