"""Demo for property C12 (PersistenceImager geometry stays self-consistent).

Run from inside the worktree so that its copy of persim is imported:
    cd /tmp/wt_P12 && PYTHONPATH=/tmp/wt_P12 /venv/bin/python /tmp/ref_P12/demo.py
Prints PASS and exits 0 when the geometry invariant holds for every history below,
prints FAIL (with the violated clauses) and exits 1 otherwise.
"""
import sys
import warnings

import matplotlib

matplotlib.use("Agg")
warnings.simplefilter("ignore")

import numpy as np  # noqa: E402

from persim import PersistenceImager  # noqa: E402

TOL = 1e-9
failures = []


def check(imgr, label, asked_birth=None, asked_pers=None):
    """Check every clause of the invariant on the public state of imgr."""
    p = imgr.pixel_size
    (b0, b1), (p0, p1) = imgr.birth_range, imgr.pers_range
    nb, npx = imgr.resolution
    bad = []

    # resolution * pixel size == covered width / height == reported width / height
    if abs(nb * p - (b1 - b0)) > TOL or abs(nb * p - imgr.width) > TOL:
        bad.append(
            "birth axis: %d pixels * %r = %r but covered %r (width %r)"
            % (nb, p, nb * p, b1 - b0, imgr.width)
        )
    if abs(npx * p - (p1 - p0)) > TOL or abs(npx * p - imgr.height) > TOL:
        bad.append(
            "pers axis: %d pixels * %r = %r but covered %r (height %r)"
            % (npx, p, npx * p, p1 - p0, imgr.height)
        )

    # the pixels are squares of exactly the configured size, starting at the covered lower bound
    for name, pts, lo, n in (("birth", imgr._bpnts, b0, nb), ("pers", imgr._ppnts, p0, npx)):
        if len(pts) != n + 1:
            bad.append("%s mesh has %d corners for %d pixels" % (name, len(pts), n))
        elif n > 0 and (
            np.max(np.abs(np.diff(pts) - p)) > TOL or abs(pts[0] - lo) > TOL
        ):
            bad.append("%s mesh %s is not made of pixels of size %r" % (name, pts, p))

    # covered ranges contain what was asked for and exceed it by at most one pixel
    for name, asked, (lo, hi) in (
        ("birth", asked_birth, (b0, b1)),
        ("pers", asked_pers, (p0, p1)),
    ):
        if asked is None:
            continue
        if lo > asked[0] + TOL or hi < asked[1] - TOL:
            bad.append("%s range %r does not contain %r" % (name, (lo, hi), asked))
        if (hi - lo) - (asked[1] - asked[0]) > p + TOL:
            bad.append("%s range %r exceeds %r by more than a pixel" % (name, (lo, hi), asked))

    # every image has the reported resolution and a narrow-kernel point lands in its own pixel
    if nb > 0 and npx > 0:
        imgr_kp = imgr.kernel_params
        imgr.kernel_params = {"sigma": (p / 50.0) ** 2}
        i, j = nb - 1, npx - 1
        pt = np.array([[b0 + (i + 0.5) * p, p0 + (j + 0.5) * p]])
        img = imgr.transform(pt, skew=False)
        empty = imgr.transform(np.zeros((0, 2)))
        imgr.kernel_params = imgr_kp
        if img.shape != (nb, npx) or empty.shape != (nb, npx):
            bad.append("image shapes %s / %s != resolution %s" % (img.shape, empty.shape, (nb, npx)))
        else:
            a = np.abs(img)
            if a.max() > 0 and np.unravel_index(np.argmax(a), a.shape) != (i, j):
                bad.append(
                    "point at the centre of pixel %s lands in pixel %s"
                    % ((i, j), np.unravel_index(np.argmax(a), a.shape))
                )
            elif a.max() > 0 and a[i, j] < 0.99 * a.sum():
                bad.append("point at the centre of pixel %s leaks into its neighbours" % ((i, j),))

    if bad:
        failures.append((label, bad))


# --- constructor: ranges that are not a whole number of pixels --------------------------------
for br, pr, px in [
    ((0.0, 1.0), (0.0, 1.0), 0.3),
    ((0.0, 5.0), (0.0, 3.0), 2.0),
    ((0, 5), (0.0, 3.0), 2),
    ((0, 5), (0, 3), 2.0),
    ((0, 5), (0, 3), 2),  # everything integer-typed
    ((0, 4), (-1, 6), 3),
    ((-3, 4), (0, 10), 4),
    ((0, 6), (0, 4), 2),  # integer-typed and commensurable
]:
    im = PersistenceImager(birth_range=br, pers_range=pr, pixel_size=px)
    check(im, "constructor %r %r %r" % (br, pr, px), br, pr)

# --- histories of assignments ----------------------------------------------------------------
im = PersistenceImager(birth_range=(0, 5), pers_range=(0, 3), pixel_size=1)
check(im, "history A: constructor", (0, 5), (0, 3))
before = (im.birth_range, im.pers_range)
im.pixel_size = 2
check(im, "history A: pixel_size = 2", *before)
im.birth_range = (0, 7)
check(im, "history A: birth_range = (0, 7)", (0, 7), None)
im.pers_range = (1, 4)
check(im, "history A: pers_range = (1, 4)", None, (1, 4))
before = (im.birth_range, im.pers_range)
im.pixel_size = 3
check(im, "history A: pixel_size = 3", *before)

im = PersistenceImager(birth_range=(0.0, 1.0), pers_range=(0.0, 1.0), pixel_size=0.1)
im.birth_range = (0.0, 0.3)
check(im, "history B: birth_range = (0.0, 0.3)", (0.0, 0.3), None)
im.pers_range = (0, 7)
check(im, "history B: pers_range = (0, 7)", None, (0, 7))
before = (im.birth_range, im.pers_range)
im.pixel_size = 0.7
check(im, "history B: pixel_size = 0.7", *before)

im = PersistenceImager(birth_range=(0, 2), pers_range=(0, 2), pixel_size=2)
dgm = np.array([[0, 1], [1, 4], [5, 8]])
im.fit(dgm)
check(im, "history C: fit integer diagram", (0, 5), (1, 3))
before = (im.birth_range, im.pers_range)
im.pixel_size = 4
check(im, "history C: pixel_size = 4", *before)

if failures:
    print("FAIL")
    for label, bad in failures:
        for msg in bad:
            print("  [%s] %s" % (label, msg))
    sys.exit(1)
print("PASS")
sys.exit(0)
