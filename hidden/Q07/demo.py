"""Demo for property C07 (metric and invariance laws of bottleneck / wasserstein).

Run from inside the worktree so that the worktree copy of persim is imported:

    cd /tmp/wt_Q07 && PYTHONPATH=/tmp/wt_Q07 /venv/bin/python /tmp/ref_Q07/demo.py

Prints PASS and exits 0 if every law holds (up to floating point noise),
prints FAIL and exits 1 otherwise.
"""
import sys
import warnings

import numpy as np

import persim
from persim import bottleneck, wasserstein

warnings.simplefilter("ignore")

failures = []


def check(name, ok, detail=""):
    if not ok:
        failures.append("%s %s" % (name, detail))


def close(a, b, scale=1.0):
    # sklearn's pairwise_distances is only accurate to ~sqrt(eps)*scale
    return abs(a - b) <= 1e-6 * (1.0 + scale)


# --- a fixed, hand-checkable example ---------------------------------------
X = np.array([[0.0, 4.0]])
Y = np.array([[0.0, 1.0], [0.0, 2.0]])
# optimal: (0,4)<->(0,2) costs 2, (0,1) goes to the diagonal for 1/sqrt(2)
expected = 2.0 + 1.0 / np.sqrt(2)
check("fixed wasserstein(X, Y)", close(wasserstein(X, Y), expected),
      "got %r expected %r" % (wasserstein(X, Y), expected))
check("fixed wasserstein(Y, X)", close(wasserstein(Y, X), expected),
      "got %r expected %r" % (wasserstein(Y, X), expected))
check("fixed empty law", close(wasserstein(np.array([]), Y), 3.0 / np.sqrt(2)),
      "got %r expected %r" % (wasserstein(np.array([]), Y), 3.0 / np.sqrt(2)))

# --- random diagrams ---------------------------------------------------------
rng = np.random.default_rng(7)


def diagram(n, scale):
    b = rng.normal(size=n) * scale
    d = b + rng.random(n) * scale
    return np.column_stack((b, d)).reshape(-1, 2)


for trial in range(60):
    scale = float(rng.choice([0.01, 1.0, 30.0]))
    A = diagram(int(rng.integers(1, 12)), scale)
    B = diagram(int(rng.integers(1, 12)), scale)
    C = diagram(int(rng.integers(1, 12)), scale)
    empty = np.array([])
    for name, dist in (("bottleneck", bottleneck), ("wasserstein", wasserstein)):
        ab, ba = dist(A, B), dist(B, A)
        tag = "%s trial %d" % (name, trial)
        check(tag + " symmetry", close(ab, ba, scale), "%r vs %r" % (ab, ba))
        check(tag + " non-negative", ab >= -1e-9 and ba >= -1e-9)
        check(tag + " reorder", close(dist(A, A[rng.permutation(len(A))]), 0.0, scale))
        check(tag + " triangle", dist(A, C) <= ab + dist(B, C) + 1e-6 * (1 + scale),
              "%r > %r + %r" % (dist(A, C), ab, dist(B, C)))
        # points on the diagonal do not matter
        k = int(rng.integers(1, 4))
        t = rng.normal(size=k) * scale
        B_diag = np.vstack((B, np.column_stack((t, t))))
        check(tag + " diagonal points", close(dist(A, B_diag), ab, scale),
              "%r vs %r" % (dist(A, B_diag), ab))
        # translation along the diagonal and rescaling
        s = float(rng.normal()) * scale
        check(tag + " shift", close(dist(A + s, B + s), ab, scale + abs(s)))
        c = float(rng.choice([0.5, 3.0]))
        check(tag + " rescale", close(dist(c * A, c * B), c * ab, c * scale))
        # against the empty diagram
        pers = B[:, 1] - B[:, 0]
        want = pers.max() / 2 if name == "bottleneck" else pers.sum() / np.sqrt(2)
        for got in (dist(empty, B), dist(B, empty)):
            check(tag + " empty", close(got, want, scale), "%r vs %r" % (got, want))
    check("trial %d bottleneck<=wasserstein" % trial,
          bottleneck(A, B) <= wasserstein(A, B) + 1e-6 * (1 + scale))
    check("trial %d bottleneck<=wasserstein (swapped)" % trial,
          bottleneck(B, A) <= wasserstein(B, A) + 1e-6 * (1 + scale))

print("persim imported from", persim.__file__)
if failures:
    print("%d law violations, first few:" % len(failures))
    for f in failures[:8]:
        print("   ", f)
    print("FAIL")
    sys.exit(1)
print("PASS")
sys.exit(0)
