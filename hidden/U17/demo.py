"""
C17 demo: the brackets returned by persim.gromov_hausdorff must contain the
true mGH distance, whatever representation / labelling the graphs come in.

G is a "spider" on 6 vertices (diameter 3), H is the path on 5 vertices
(diameter 4). Both are small enough for the exact mGH distance to be found by
brute force over all mappings G -> H and H -> G:  mGH(G, H) = 0.5.

Run from inside the worktree:
    cd <worktree> && PYTHONPATH=<worktree> /venv/bin/python /tmp/ref_U17/demo.py
Prints PASS / exits 0 when every bracket contains the true distance,
prints FAIL / exits 1 otherwise.
"""
import itertools
import sys
import warnings

import numpy as np
import scipy.sparse as sps

from persim import gromov_hausdorff


def upper(n, edges):
    A = np.zeros((n, n), dtype=int)
    for u, v in edges:
        A[min(u, v), max(u, v)] = 1
    return A


def shortest_paths(A):
    # Plain Floyd-Warshall, independent of the code under test.
    n = len(A)
    S = A + A.T
    D = np.where(S > 0, 1, n + 1)
    np.fill_diagonal(D, 0)
    for k in range(n):
        D = np.minimum(D, D[:, [k]] + D[[k], :])
    assert D.max() <= n, "demo graphs are connected"
    return D


def min_distortion(DA, DB):
    best = None
    for f in itertools.product(range(len(DB)), repeat=len(DA)):
        f = list(f)
        dis = int(np.max(np.abs(DA - DB[np.ix_(f, f)])))
        if best is None or dis < best:
            best = dis
    return best


def exact_mgh(A, B):
    DA, DB = shortest_paths(A), shortest_paths(B)
    return 0.5 * max(min_distortion(DA, DB), min_distortion(DB, DA))


def relabel(A, perm):
    S = A + A.T
    S = S[np.ix_(perm, perm)]
    return np.triu(S, 1)


def main():
    np.random.seed(0)
    G = upper(6, [(0, 1), (0, 2), (0, 4), (0, 5), (1, 3)])   # spider, diameter 3
    H = upper(5, [(0, 1), (1, 2), (2, 3), (3, 4)])           # path, diameter 4
    T = upper(4, [(0, 1), (0, 2), (0, 3)])                   # star, diameter 2
    true_GH = exact_mgh(G, H)
    true_GT = exact_mgh(G, T)
    true_HT = exact_mgh(H, T)
    print("exact mGH: G-H %.1f  G-T %.1f  H-T %.1f" % (true_GH, true_GT, true_HT))

    problems = []

    def bracket(tag, lb, ub, true):
        ok = lb <= true <= ub
        print("  %-42s lb=%.1f  ub=%.1f  true=%.1f  %s" % (tag, lb, ub, true, "ok" if ok else "INVALID"))
        if not ok:
            problems.append(tag)

    with warnings.catch_warnings(record=True) as caught:
        warnings.simplefilter("always")

        perm = [3, 0, 5, 1, 4, 2]
        formats = [
            ("nested lists, upper-triangular", lambda A: A.tolist()),
            ("dense array, upper-triangular", lambda A: A),
            ("dense array, symmetric", lambda A: A + A.T),
            ("csr matrix, upper-triangular", lambda A: sps.csr_matrix(A)),
            ("csc matrix, symmetric", lambda A: sps.csc_matrix(A + A.T)),
        ]
        lbs_seen = set()
        for name, conv in formats:
            lb, ub = gromov_hausdorff(conv(G), conv(H))
            bracket("G,H " + name, lb, ub, true_GH)
            lbs_seen.add(float(lb))
            lb, ub = gromov_hausdorff(conv(H), conv(G))
            bracket("H,G " + name, lb, ub, true_GH)
            lbs_seen.add(float(lb))
        lb, ub = gromov_hausdorff(relabel(G, perm), H)
        bracket("G relabelled, H", lb, ub, true_GH)
        if len(lbs_seen) != 1:
            problems.append("lower bound depends on the representation: %s" % sorted(lbs_seen))

        lbs, ubs = gromov_hausdorff([G.tolist(), sps.csr_matrix(H), T + T.T])
        true = np.array([[0, true_GH, true_GT], [true_GH, 0, true_HT], [true_GT, true_HT, 0]])
        if not (np.array_equal(lbs, lbs.T) and np.array_equal(ubs, ubs.T)
                and not lbs.diagonal().any() and not ubs.diagonal().any()):
            problems.append("collection matrices not symmetric with zero diagonal")
        for i, j, tag in [(0, 1, "collection[G,H]"), (0, 2, "collection[G,T]"), (1, 2, "collection[H,T]")]:
            bracket(tag, lbs[i, j], ubs[i, j], true[i, j])

    if caught:
        problems.append("unexpected warnings: %s" % [str(w.message) for w in caught])

    if problems:
        print("FAIL: " + "; ".join(problems))
        return 1
    print("PASS")
    return 0


if __name__ == "__main__":
    sys.exit(main())
