"""Demo for property C20 (plots draw exactly the data they are given), 2-D landscape plots.

Each line of plot_landscape_simple must be the landscape function of the depth it is
labelled with: for an exact landscape the critical points of that depth, for an
approximate one the sampled values of that depth over linspace(start, stop).
The check uses a non-default ``depth_range`` that does not start at depth 0.

Run from inside the worktree:
    cd /tmp/wt_N20 && PYTHONPATH=/tmp/wt_N20 /venv/bin/python /tmp/ref_N20/demo.py
"""
import re
import sys
import warnings

import matplotlib

matplotlib.use("Agg")
import matplotlib.pyplot as plt
import numpy as np

warnings.simplefilter("ignore")

from persim.landscapes import PersLandscapeApprox, PersLandscapeExact, plot_landscape_simple

# three nested intervals -> landscape functions of depth 0, 1 and 2
dgms = [np.array([[0.0, 6.0], [1.0, 5.0], [2.0, 4.0]])]
failures = []


def drawn(ax):
    """{depth: (xs, ys)} read back from the axes, keyed by the depth in the line label."""
    out = {}
    for line in ax.get_lines():
        m = re.search(r"\\lambda_\{(\d+)\}", line.get_label())
        assert m, line.get_label()
        out[int(m.group(1))] = (np.asarray(line.get_xdata()), np.asarray(line.get_ydata()))
    return out


def check(name, ax, expected):
    got = drawn(ax)
    legend = [t.get_text() for t in ax.get_legend().get_texts()]
    if sorted(got) != sorted(expected):
        failures.append(f"{name}: depths drawn {sorted(got)}, expected {sorted(expected)} (legend {legend})")
        return
    for depth, (xs, ys) in expected.items():
        gx, gy = got[depth]
        if gx.shape != xs.shape or not (np.allclose(gx, xs) and np.allclose(gy, ys)):
            failures.append(
                f"{name}: line labelled depth {depth} does not show the depth-{depth} function\n"
                f"      drawn    x={gx[:6]} y={gy[:6]}\n"
                f"      expected x={xs[:6]} y={ys[:6]}"
            )


for depth_range in (range(1, 3), [2], range(0, 3, 2), None):
    # exact landscape: one line per requested depth through its critical points
    ple = PersLandscapeExact(dgms=dgms, hom_deg=0)
    wanted = range(len(ple.critical_pairs)) if depth_range is None else depth_range
    expected = {
        d: (np.array(ple.critical_pairs[d])[:, 0], np.array(ple.critical_pairs[d])[:, 1])
        for d in range(len(ple.critical_pairs))
        if d in wanted
    }
    fig, ax = plt.subplots()
    plot_landscape_simple(ple, depth_range=depth_range, ax=ax)
    check(f"exact, depth_range={depth_range}", ax, expected)
    plt.close(fig)

    # approximate landscape: one line per requested depth of its sampled values
    pla = PersLandscapeApprox(dgms=dgms, hom_deg=0, num_steps=25)
    grid = np.linspace(pla.start, pla.stop, pla.values.shape[1])
    wanted = range(len(pla.values)) if depth_range is None else depth_range
    expected = {d: (grid, pla.values[d]) for d in range(len(pla.values)) if d in wanted}
    fig, ax = plt.subplots()
    plot_landscape_simple(pla, depth_range=depth_range, ax=ax)
    check(f"approx, depth_range={depth_range}", ax, expected)
    plt.close(fig)

if failures:
    print("FAIL")
    for f in failures:
        print("  -", f)
    sys.exit(1)
print("PASS")
sys.exit(0)
