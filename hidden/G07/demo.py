"""
Demo for property C07 (metric / invariance laws of persim.bottleneck).

Run from inside the worktree so that the worktree copy of persim is used:
    cd /tmp/wt_G07 && PYTHONPATH=/tmp/wt_G07 /venv/bin/python /tmp/ref_G07/demo.py

Prints PASS and exits 0 when all laws hold, prints FAIL and exits 1 otherwise.
"""
import sys
import warnings

import numpy as np

from persim import bottleneck, wasserstein

warnings.simplefilter("ignore")
TOL = 1e-9
failures = []


def check(name, ok, detail=""):
    if not ok:
        failures.append(name)
        print("  violated: {} {}".format(name, detail))


def random_diagram(rng, n):
    births = rng.uniform(0.0, 4.0, n)
    pers = rng.uniform(0.05, 2.0, n)
    return np.c_[births, births + pers]


def diagonal_points(rng, k):
    x = rng.uniform(0.0, 6.0, k)
    return np.c_[x, x]


rng = np.random.default_rng(20240707)
empty = np.array([])

# a tiny hand-checkable case first: one far-away extra point in A
A0 = np.array([[0.0, 1.0], [0.2, 1.3], [3.0, 7.0]])
B0 = np.array([[0.1, 1.0], [0.2, 1.2]])
check("hand case value", abs(bottleneck(A0, B0) - 2.0) < TOL, bottleneck(A0, B0))
check("hand case symmetry", abs(bottleneck(A0, B0) - bottleneck(B0, A0)) < TOL)

for trial in range(12):
    m, n, k = rng.integers(3, 25), rng.integers(3, 25), rng.integers(1, 6)
    if m == n:
        n += 2
    A, B, C = random_diagram(rng, m), random_diagram(rng, n), random_diagram(rng, k + 6)
    dAB, dBA = bottleneck(A, B), bottleneck(B, A)

    # symmetry and non-negativity
    check("symmetry", abs(dAB - dBA) < TOL, (m, n, dAB, dBA))
    check("non-negative", dAB >= 0)

    # reordering of a diagram
    check("reorder", bottleneck(A, A[rng.permutation(m)]) == 0)

    # points on the diagonal change nothing (this also makes sizes unequal)
    A_plus = np.vstack([A, diagonal_points(rng, k)])
    B_plus = np.vstack([diagonal_points(rng, k + 1), B])
    check("diagonal points (first)", abs(bottleneck(A_plus, B) - dAB) < TOL, (m, n, k))
    check("diagonal points (second)", abs(bottleneck(A, B_plus) - dAB) < TOL, (m, n, k))
    check("diagonal points vs self", bottleneck(A_plus, A) < TOL, (m, k))

    # translation along the diagonal and rescaling
    check("translation", abs(bottleneck(A - 7.5, B - 7.5) - dAB) < 1e-7)
    check("scaling", abs(bottleneck(3.0 * A, 3.0 * B) - 3.0 * dAB) < 1e-7)

    # empty diagram: max persistence / 2, both argument orders
    half = 0.5 * np.max(A[:, 1] - A[:, 0])
    check("empty (second)", abs(bottleneck(A, empty) - half) < TOL, (m, bottleneck(A, empty), half))
    check("empty (first)", abs(bottleneck(empty, A) - half) < TOL, (m, bottleneck(empty, A), half))

    # bottleneck never exceeds Wasserstein
    check("bottleneck <= wasserstein", dAB <= wasserstein(A, B) + TOL)

    # triangle inequality on a triple of different sizes
    dAC, dCB = bottleneck(A, C), bottleneck(C, B)
    check("triangle", dAB <= dAC + dCB + TOL, (dAB, dAC, dCB))

if failures:
    print("FAIL ({} violations: {})".format(len(failures), sorted(set(failures))))
    sys.exit(1)
print("PASS")
sys.exit(0)
