"""C09 demo: re-sampling grid landscapes onto a common grid is linear
interpolation of every depth, and linear combinations / averages equal the
same combination of the re-sampled values.

Run from inside the worktree:
    cd /tmp/wt_L09 && PYTHONPATH=/tmp/wt_L09 /venv/bin/python /tmp/ref_L09/demo.py

Prints PASS and exits 0 when the property holds on the inputs below,
prints FAIL and exits 1 otherwise.
"""
import sys

import matplotlib

matplotlib.use("Agg")

import numpy as np

from persim.landscapes import PersLandscapeApprox, average_approx, lc_approx, snap_pl

failures = []


def check(name, got, want):
    got = np.asarray(got, dtype=float)
    want = np.asarray(want, dtype=float)
    ok = got.shape == want.shape and np.allclose(got, want, rtol=0, atol=1e-12)
    print(f"  [{'ok' if ok else 'BAD'}] {name}")
    if not ok:
        print(f"        got  {got.tolist()}")
        print(f"        want {want.tolist()}")
        failures.append(name)


def reference(pl_values, pl_start, pl_stop, start, stop, num_steps):
    """Linear interpolation of every depth, written out independently."""
    src = np.linspace(pl_start, pl_stop, np.shape(pl_values)[1])
    dst = np.linspace(start, stop, num_steps)
    return np.array(
        [np.interp(dst, src, np.asarray(row, dtype=float)) for row in pl_values]
    )


# Two landscapes given by their values on integer grids (the values happen to
# be whole numbers, so numpy stores them as an integer array).
p_vals = np.array([[0, 1, 2, 1, 0], [0, 0, 1, 0, 0]])
q_vals = np.array([[0, 2, 4, 2, 0, 0]])
p_keep, q_keep = p_vals.copy(), q_vals.copy()
P = PersLandscapeApprox(start=0, stop=4, num_steps=5, values=p_vals)
Q = PersLandscapeApprox(start=1, stop=6, num_steps=6, values=q_vals)

# 1. snap onto a finer grid: half-way points must get the half-way values
print("snap_pl onto a grid with half steps")
[P_fine] = snap_pl([P], start=0, stop=4, num_steps=9)
check(
    "P depth 0/1 on 0, 0.5, ..., 4",
    P_fine.values,
    [[0, 0.5, 1, 1.5, 2, 1.5, 1, 0.5, 0], [0, 0, 0, 0.5, 1, 0.5, 0, 0, 0]],
)

# 2. the same landscape given with float values must snap to the same thing
P_float = PersLandscapeApprox(
    start=0, stop=4, num_steps=5, values=p_vals.astype(float)
)
[P_float_fine] = snap_pl([P_float], start=0, stop=4, num_steps=9)
check("int-valued and float-valued P snap alike", P_fine.values, P_float_fine.values)

# 3. two landscapes, common grid that is not aligned with either of them
print("snap_pl of two landscapes onto a shifted grid")
grid = dict(start=0, stop=6, num_steps=9)  # step 0.75
P_s, Q_s = snap_pl([P, Q], **grid)
ref_P = reference(p_keep, 0, 4, **grid)
ref_Q = reference(q_keep, 1, 6, **grid)
check("P resampled", P_s.values, ref_P)
check("Q resampled", Q_s.values, ref_Q)

# 4. linear combination and average equal the combination of the resampled values
print("lc_approx / average_approx on that grid")
ref_Q_padded = np.vstack([ref_Q, np.zeros_like(ref_Q)])
check(
    "2*P - 0.5*Q",
    lc_approx([P, Q], [2, -0.5], **grid).values,
    2 * ref_P - 0.5 * ref_Q_padded,
)
check(
    "average of P and Q",
    average_approx([P, Q], **grid).values,
    0.5 * (ref_P + ref_Q_padded),
)

# 5. the operands are untouched
print("operands")
check("P.values unchanged", P.values, p_keep)
check("Q.values unchanged", Q.values, q_keep)
if (P.start, P.stop, P.num_steps) != (0, 4, 5) or (Q.start, Q.stop, Q.num_steps) != (
    1,
    6,
    6,
):
    failures.append("grid parameters of the operands changed")

if failures:
    print("FAIL")
    sys.exit(1)
print("PASS")
sys.exit(0)
