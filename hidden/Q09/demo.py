"""C09 demo: linear combinations / averages of grid landscapes must equal the
same combination of the values re-sampled (linear interpolation) onto the
common grid, and must leave the operands untouched.

Run from inside the worktree so that the worktree's persim is imported:
  cd /tmp/wt_Q09 && PYTHONPATH=/tmp/wt_Q09 /venv/bin/python /tmp/ref_Q09/demo.py
Prints PASS / exits 0 when the property holds, prints FAIL / exits 1 otherwise.
"""
import sys

import numpy as np

from persim.landscapes import PersLandscapeApprox, average_approx, lc_approx

failures = []


def resample(pl, grid):
    """Independent oracle: linear interpolation of every depth onto `grid`."""
    own = np.linspace(pl.start, pl.stop, pl.num_steps)
    return np.array([np.interp(grid, own, row) for row in pl.values])


def expected_lc(pls, coeffs, start, stop, num_steps):
    grid = np.linspace(start, stop, num_steps)
    depth = max(len(pl.values) for pl in pls)
    total = np.zeros((depth, num_steps))
    for c, pl in zip(coeffs, pls):
        vals = resample(pl, grid)
        total[: len(vals)] += c * vals
    return total


def check(label, call, pls, coeffs, start, stop, num_steps):
    before = [(pl.start, pl.stop, pl.num_steps, pl.values.copy()) for pl in pls]
    try:
        got = call()
    except Exception as e:  # noqa: BLE001
        failures.append(f"{label}: raised {type(e).__name__}: {e}")
        return
    want = expected_lc(pls, coeffs, start, stop, num_steps)
    if (got.start, got.stop, got.num_steps) != (start, stop, num_steps):
        failures.append(
            f"{label}: result grid is ({got.start}, {got.stop}, {got.num_steps}), "
            f"requested ({start}, {stop}, {num_steps})"
        )
    elif got.values.shape != want.shape or not np.allclose(got.values, want):
        failures.append(f"{label}: values differ from the combination of re-sampled values")
    for pl, (s, e, n, v) in zip(pls, before):
        if (pl.start, pl.stop, pl.num_steps) != (s, e, n) or not np.array_equal(pl.values, v):
            failures.append(f"{label}: an operand was modified")


# 1. two landscapes sampled on different grids -> tightest common grid 0..6, 7 nodes
P = PersLandscapeApprox(start=0, stop=5, num_steps=6, values=np.array([[0.0, 1, 2, 2, 1, 0]]))
Q = PersLandscapeApprox(
    start=1, stop=6, num_steps=7, values=np.array([[0.0, 1, 2, 3, 2, 1, 0], [0, 0, 1, 2, 1, 0, 0]])
)
check("lc_approx, different grids", lambda: lc_approx([P, Q], [2, -1]), [P, Q], [2, -1], 0, 6, 7)
check("average_approx, different grids", lambda: average_approx([P, Q]), [P, Q], [0.5, 0.5], 0, 6, 7)

# 2. same grid for every operand, but the caller asks for a finer / wider one
R = PersLandscapeApprox(start=0, stop=5, num_steps=6, values=np.array([[0.0, 2, 1, 3, 1, 0]]))
check(
    "lc_approx, explicit grid",
    lambda: lc_approx([P, R], [1.5, -0.5], start=-1, stop=6, num_steps=15),
    [P, R],
    [1.5, -0.5],
    -1,
    6,
    15,
)
check(
    "average_approx, explicit num_steps",
    lambda: average_approx([P, R], num_steps=11),
    [P, R],
    [0.5, 0.5],
    0,
    5,
    11,
)

# 3. control: operands already on the common grid, no options (what the test-suite covers)
check("lc_approx, same grid", lambda: lc_approx([P, R], [2, -1]), [P, R], [2, -1], 0, 5, 6)

if failures:
    for f in failures:
        print("  -", f)
    print("FAIL")
    sys.exit(1)
print("PASS")
sys.exit(0)
