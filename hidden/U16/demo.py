"""C16 demo: persistent entropy == Shannon entropy of the normalised bar lengths,
for every flag combination (keep_inf, val_inf, normalize) - however the flags are passed.

Run from inside the worktree:
    cd /tmp/wt_U16 && PYTHONPATH=/tmp/wt_U16 /venv/bin/python /tmp/ref_U16/demo.py
"""
import sys
import warnings

import numpy as np

from persim.persistent_entropy import persistent_entropy


def shannon(lengths, normalize=False):
    lengths = np.asarray(lengths, dtype=float)
    p = lengths / lengths.sum()
    e = -np.sum(p * np.log(p))
    return e / np.log(len(lengths)) if normalize else e


failures = []


def check(what, got, want):
    got = np.asarray(got, dtype=float)
    want = np.asarray(want, dtype=float)
    ok = got.shape == want.shape and np.allclose(got, want, rtol=1e-12, atol=1e-12)
    print("%-62s got %-28s want %-28s %s" % (what, np.round(got, 6), np.round(want, 6), "ok" if ok else "WRONG"))
    if not ok:
        failures.append(what)


finite = np.array([[0.0, 1.0], [0.0, 3.0], [2.0, 4.0], [1.0, 9.0]])
with_inf = np.array([[0.0, 1.0], [0.0, 3.0], [2.0, 4.0], [0.0, np.inf]])
other = np.array([[2.0, 5.0], [3.0, 8.0], [1.0, np.inf]])

with warnings.catch_warnings():
    warnings.simplefilter("ignore")
    with np.errstate(all="ignore"):
        # flags by keyword
        check("keyword : keep_inf=True, val_inf=10",
              persistent_entropy(with_inf, keep_inf=True, val_inf=10.0), [shannon([1, 3, 2, 10])])
        check("keyword : normalize=True",
              persistent_entropy(finite, normalize=True), [shannon([1, 3, 2, 8], True)])
        # the same requests with the flags given by position
        check("position: (dgm, True, 10.0)  infinite bar replaced by 10",
              persistent_entropy(with_inf, True, 10.0), [shannon([1, 3, 2, 10])])
        check("position: (dgm, False, None, True)  normalised variant",
              persistent_entropy(finite, False, None, True), [shannon([1, 3, 2, 8], True)])
        check("position: ([d1, d2], True, 20.0, True)  list of diagrams",
              persistent_entropy([with_inf, other], True, 20.0, True),
              [shannon([1, 3, 2, 20], True), shannon([3, 5, 19], True)])
        check("mixed   : (dgm, True, val_inf=6.0, normalize=True)",
              persistent_entropy(with_inf, True, val_inf=6.0, normalize=True), [shannon([1, 3, 2, 6], True)])
        # normalised value of an unequal barcode is strictly inside (0, 1)
        v = persistent_entropy(finite, False, None, True)[0]
        if not (0.0 <= v <= 1.0):
            print("normalised entropy %.6f outside [0, 1]" % v)
            failures.append("normalised range")

if failures:
    print("FAIL: %d check(s) violated: %s" % (len(failures), "; ".join(failures)))
    sys.exit(1)
print("PASS")
sys.exit(0)
