"""C12 demo: imager geometry stays self-consistent under any configuration history.

Run from inside the worktree so that the worktree copy of persim is imported:

    cd /tmp/wt_Q12 && PYTHONPATH=/tmp/wt_Q12 /venv/bin/python /tmp/ref_Q12/demo.py

For a handful of configuration histories (constructor, range / pixel-size
assignments, fits, with quotients such as 0.3/0.1, 0.7/0.1 and 1/3) the program
checks
  * the corner mesh has resolution+1 boundaries per axis, spaced by exactly the
    configured pixel size and starting / ending at the reported ranges,
  * resolution * pixel_size equals width and height,
  * the covered ranges contain what the last operation asked for and exceed it
    by at most one pixel,
  * every image has exactly the reported resolution, and
  * a single point with a very narrow kernel lands in the pixel that the
    reported ranges and pixel size predict - for every kernel the imager
    offers (isotropic Gaussian, anisotropic Gaussian, uniform box).

Prints PASS and exits 0 when everything holds, prints FAIL and exits 1 otherwise.
"""
import sys

import matplotlib

matplotlib.use("Agg")
import numpy as np

from persim import PersistenceImager

TOL = 1e-9
failures = []


def fail(msg):
    failures.append(msg)
    print("  violation:", msg)


def check_state(im, asked_birth, asked_pers, label):
    ps = im.pixel_size
    (b0, b1), (p0, p1) = im.birth_range, im.pers_range
    rb, rp = im.resolution
    if abs(rb * ps - im.width) > TOL or abs(rp * ps - im.height) > TOL:
        fail("%s: resolution*pixel_size != width/height" % label)
    if abs((b1 - b0) - im.width) > TOL or abs((p1 - p0) - im.height) > TOL:
        fail("%s: ranges do not span width/height" % label)
    for pts, lo, hi, r, name in (
        (im._bpnts, b0, b1, rb, "birth"),
        (im._ppnts, p0, p1, rp, "pers"),
    ):
        if len(pts) != r + 1:
            fail("%s: %s mesh has %d boundaries for %d pixels" % (label, name, len(pts), r))
            continue
        if np.max(np.abs(np.diff(pts) - ps)) > TOL:
            fail("%s: %s pixels are not of the configured size" % (label, name))
        if abs(pts[0] - lo) > TOL or abs(pts[-1] - hi) > TOL:
            fail("%s: %s mesh does not start/end at the reported range" % (label, name))
    for (lo, hi), (alo, ahi), name in (
        ((b0, b1), asked_birth, "birth"),
        ((p0, p1), asked_pers, "pers"),
    ):
        if lo > alo + TOL or hi < ahi - TOL:
            fail("%s: %s range %r does not contain %r" % (label, name, (lo, hi), (alo, ahi)))
        if (hi - lo) - (ahi - alo) > ps + TOL:
            fail("%s: %s range exceeds the request by more than a pixel" % (label, name))


KERNELS = [
    ("isotropic gaussian", "gaussian", {"sigma": [[1e-6, 0.0], [0.0, 1e-6]]}),
    ("scalar-sigma gaussian", "gaussian", {"sigma": 1e-6}),
    ("anisotropic gaussian", "gaussian", {"sigma": np.array([[1e-6, 0.0], [0.0, 4e-6]])}),
    ("uniform box", "uniform", {"width": 1e-3, "height": 2e-3}),
]


def check_images(im, label):
    """A narrow-kernel point placed at the centre of pixel (i, j) must light up (i, j)."""
    ps = im.pixel_size
    rb, rp = im.resolution
    (b0, _), (p0, _) = im.birth_range, im.pers_range
    probes = {(0, 0), (rb - 1, rp - 1), (rb - 1, 0), (0, rp - 1), (rb // 2, rp // 3)}
    saved = (im.kernel, im.kernel_params)
    for kname, kern, kparams in KERNELS:
        im.kernel = im._ensure_callable(kernel=kern)[1]
        im.kernel_params = kparams
        for i, j in sorted(probes):
            pt = np.array([[b0 + (i + 0.5) * ps, p0 + (j + 0.5) * ps]])
            img = im.transform(pt, skew=False)
            if img.shape != tuple(im.resolution):
                fail("%s / %s: image shape %r != resolution %r" % (label, kname, img.shape, im.resolution))
                continue
            hit = np.unravel_index(np.argmax(np.abs(img)), img.shape)
            total = np.abs(img).sum()
            if tuple(int(h) for h in hit) != (i, j) or abs(img[i, j]) < 0.99 * total:
                fail(
                    "%s / %s: point at the centre of pixel %r lands at %r (resolution %r)"
                    % (label, kname, (i, j), tuple(int(h) for h in hit), im.resolution)
                )
    im.kernel, im.kernel_params = saved


def weight_one(birth, pers):
    return np.ones_like(np.asarray(birth, dtype=float))


def run():
    # history 1: constructor only, inexact quotients
    im = PersistenceImager(
        birth_range=(0.0, 0.3), pers_range=(0.0, 0.7), pixel_size=0.1,
        weight=weight_one, weight_params={},
    )
    check_state(im, (0.0, 0.3), (0.0, 0.7), "ctor 0.3x0.7/0.1")
    check_images(im, "ctor 0.3x0.7/0.1")

    # history 2: range assignments that are not whole multiples
    im = PersistenceImager(pixel_size=0.2, weight=weight_one, weight_params={})
    im.birth_range = (-0.35, 1.0)
    before_p = im.pers_range
    check_state(im, (-0.35, 1.0), before_p, "birth_range=(-0.35, 1)")
    im.pers_range = (0.1, 0.45)
    before_b = im.birth_range
    check_state(im, before_b, (0.1, 0.45), "pers_range=(0.1, 0.45)")
    check_images(im, "after range assignments")

    # history 3: pixel size change (1/3), then another range
    before_b, before_p = im.birth_range, im.pers_range
    im.pixel_size = 1 / 3
    check_state(im, before_b, before_p, "pixel_size=1/3")
    check_images(im, "after pixel_size=1/3")
    im.birth_range = (0.0, 2.0)
    check_state(im, (0.0, 2.0), im.pers_range, "birth_range=(0, 2) @1/3")
    check_images(im, "after birth_range=(0, 2) @1/3")

    # history 4: fits (single diagram, list of diagrams, both skew settings)
    im = PersistenceImager(pixel_size=0.1, weight=weight_one, weight_params={})
    d1 = np.array([[0.05, 0.5], [0.3, 0.61], [0.75, 0.9]])
    im.fit(d1, skew=True)
    check_state(im, (0.05, 0.75), (0.15, 0.45), "fit(d1)")
    check_images(im, "after fit(d1)")
    d2 = [np.array([[0.0, 0.2], [1.3, 0.25]]), np.array([[0.4, 0.95]])]
    im.fit(d2, skew=False)
    check_state(im, (0.0, 1.3), (0.2, 0.95), "fit(d2, skew=False)")
    check_images(im, "after fit(d2, skew=False)")
    im.pixel_size = 0.25
    check_images(im, "after fit + pixel_size=0.25")

    # history 5: square resolution as well
    im = PersistenceImager(
        birth_range=(0, 3), pers_range=(1, 4), pixel_size=1, weight=weight_one, weight_params={}
    )
    check_state(im, (0, 3), (1, 4), "ctor 3x3")
    check_images(im, "ctor 3x3")


run()
if failures:
    print("FAIL (%d violations)" % len(failures))
    sys.exit(1)
print("PASS")
sys.exit(0)
