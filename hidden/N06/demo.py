"""C06 demo: a requested matching must certify the reported distance.

Run from inside the tree under test:
  cd /tmp/wt_N06 && PYTHONPATH=/tmp/wt_N06 /venv/bin/python /tmp/ref_N06/demo.py
Prints PASS / exits 0 when every check holds, prints FAIL / exits 1 otherwise.
"""
import sys
import warnings

import numpy as np

warnings.simplefilter("ignore")
import persim  # noqa: E402
from persim import bottleneck, wasserstein  # noqa: E402


def linf_cost(p, q):
    return max(abs(p[0] - q[0]), abs(p[1] - q[1]))


def linf_diag(p):
    return 0.5 * (p[1] - p[0])


def l2_cost(p, q):
    return float(np.hypot(p[0] - q[0], p[1] - q[1]))


def l2_diag(p):
    return (p[1] - p[0]) / np.sqrt(2)


def check(name, fn, pair_cost, diag_cost, combine, A, B):
    """Return a list of problems (empty when the matching is a certificate)."""
    problems = []
    d_plain = fn(A, B)
    d, m = fn(A, B, matching=True)
    if not np.isclose(d, d_plain):
        problems.append("distance with matching %r != without %r" % (d, d_plain))
    A_ = A if len(A) else np.array([[0.0, 0.0]])
    B_ = B if len(B) else np.array([[0.0, 0.0]])
    left = sorted(int(i) for i in m[:, 0] if i >= 0)
    right = sorted(int(j) for j in m[:, 1] if j >= 0)
    if left != list(range(len(A_))):
        problems.append("dgm1 points not covered exactly once: %r" % (left,))
    if right != list(range(len(B_))):
        problems.append("dgm2 points not covered exactly once: %r" % (right,))
    for i, j, c in m:
        i, j = int(i), int(j)
        if i >= 0 and j >= 0:
            want = pair_cost(A_[i], B_[j])
        elif i >= 0:
            want = diag_cost(A_[i])
        elif j >= 0:
            want = diag_cost(B_[j])
        else:
            problems.append("diagonal-diagonal row reported")
            continue
        if not np.isclose(c, want):
            problems.append("row (%d, %d): cost %r, expected %r" % (i, j, c, want))
    total = combine(m[:, 2])
    if not np.isclose(total, d):
        problems.append(
            "%s of the row costs is %r but the reported distance is %r"
            % (combine.__name__, total, d)
        )
    for p in problems:
        print("  [%s] %s" % (name, p))
    return problems


def cases():
    rng = np.random.default_rng(6)
    yield np.array([[0.0, 1.0]]), np.array([[0.0, 1.2]])
    yield np.array([[0.5, 1], [0.6, 1.1]]), np.array(
        [[0.5, 1.1], [0.6, 1.1], [0.8, 1.1], [1.0, 1.1]]
    )
    yield np.array([[0.0, 4.0], [1.0, 5.0], [2.0, 2.5]]), np.array([[0.1, 4.2]])
    yield np.array([]), np.array([[1.0, 2.0], [1.0, 2.0]])
    # a handful of small random diagrams, some with repeated points
    for _ in range(12):
        m, n = rng.integers(1, 6, size=2)
        b1, b2 = rng.random(m), rng.random(n)
        A = np.column_stack((b1, b1 + rng.random(m)))
        B = np.column_stack((b2, b2 + rng.random(n)))
        if rng.random() < 0.3:
            B = np.vstack((B, A[:1]))
        yield A, B


def main():
    print("persim imported from", persim.__file__)
    bad = 0
    for k, (A, B) in enumerate(cases()):
        bad += bool(check("bottleneck #%d" % k, bottleneck, linf_cost, linf_diag, np.max, A, B))
        bad += bool(check("wasserstein #%d" % k, wasserstein, l2_cost, l2_diag, np.sum, A, B))
    if bad:
        print("FAIL: %d matching(s) do not certify the reported distance" % bad)
        return 1
    print("PASS: every matching certifies the reported distance")
    return 0


if __name__ == "__main__":
    sys.exit(main())
