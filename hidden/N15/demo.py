"""C15 demo: the sliced Wasserstein distance never exceeds twice the
1-Wasserstein distance, and W1 agrees with a brute-force optimal matching.

Run from inside the worktree:
    cd /tmp/wt_N15 && PYTHONPATH=/tmp/wt_N15 /venv/bin/python /tmp/ref_N15/demo.py
Prints PASS and exits 0 when the property holds, FAIL and exits 1 otherwise.
"""
import itertools
import sys
import warnings

import numpy as np

from persim import sliced_wasserstein, wasserstein

warnings.simplefilter("ignore")


def brute_w1(A, B):
    """1-Wasserstein distance (Euclidean ground metric) by trying every
    partial matching; unmatched points go to the diagonal."""
    A, B = np.asarray(A, float).reshape(-1, 2), np.asarray(B, float).reshape(-1, 2)
    pa = (A[:, 1] - A[:, 0]) / np.sqrt(2.0)
    pb = (B[:, 1] - B[:, 0]) / np.sqrt(2.0)
    m, n = len(A), len(B)
    best = np.inf
    # every injective partial map from A into B
    for k in range(0, min(m, n) + 1):
        for rows in itertools.combinations(range(m), k):
            for cols in itertools.permutations(range(n), k):
                c = sum(np.hypot(*(A[i] - B[j])) for i, j in zip(rows, cols))
                c += sum(pa[i] for i in range(m) if i not in rows)
                c += sum(pb[j] for j in range(n) if j not in cols)
                best = min(best, c)
    return best


failures = []

# 1. a fixed, hand-checkable case: one long bar next to short ones.
#    a=(0,10) has to go to the diagonal (10/sqrt2), b~c match, d goes to the
#    diagonal:  W1 = 7.0711 + 0.1414 + 0.1414
A = np.array([[0.0, 10.0], [20.0, 20.2]])
B = np.array([[20.1, 20.3], [40.0, 40.2]])
w = wasserstein(A, B)
sw = sliced_wasserstein(A, B, M=50)
expect = 10 / np.sqrt(2) + np.hypot(0.1, 0.1) + 0.2 / np.sqrt(2)
print("fixed case: W1 = %.6f (expected %.6f), SW = %.6f" % (w, expect, sw))
if not np.isclose(w, expect, rtol=1e-9):
    failures.append("fixed case: W1 = %r, expected %r" % (w, expect))
if sw > 2 * w * (1 + 1e-6) + 1e-9:
    failures.append("fixed case: SW = %r exceeds 2*W1 = %r" % (sw, 2 * w))

# 2. random diagrams of unequal sizes, either sign, also translated along the
#    diagonal into negative coordinates
rng = np.random.default_rng(15)
for it in range(300):
    m, n = rng.integers(0, 5, size=2)
    shift = rng.choice([0.0, -50.0, 7.5])
    b1 = rng.normal(size=m) * 3 + shift
    b2 = rng.normal(size=n) * 3 + shift
    A = np.stack([b1, b1 + rng.exponential(size=m) * rng.choice([0.1, 5.0])], axis=1)
    B = np.stack([b2, b2 + rng.exponential(size=n) * rng.choice([0.1, 5.0])], axis=1)
    w = wasserstein(A, B)
    ref = brute_w1(A, B)
    if not np.isclose(w, ref, rtol=1e-9, atol=1e-12):
        failures.append("random #%d (%dx%d): W1 = %r, brute force = %r" % (it, m, n, w, ref))
    if m and n:
        sw = sliced_wasserstein(A, B, M=20)
        # float32 directions in sliced_wasserstein: allow a relative 1e-5
        if sw > 2 * w * (1 + 1e-5) + 1e-6 * (1 + abs(shift)):
            failures.append("random #%d (%dx%d): SW = %r > 2*W1 = %r" % (it, m, n, sw, 2 * w))
    # W1 must also be symmetric
    if not np.isclose(wasserstein(B, A), w, rtol=1e-9, atol=1e-12):
        failures.append("random #%d: W1 not symmetric" % it)

if failures:
    for f in failures[:8]:
        print("  ", f)
    print("%d violation(s)" % len(failures))
    print("FAIL")
    sys.exit(1)
print("PASS")
sys.exit(0)
