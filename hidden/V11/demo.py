"""C11 demo: persistence images must not depend on the call style (serial / parallel workers).

Run from inside the tree under test:
    cd /tmp/wt_V11 && PYTHONPATH=/tmp/wt_V11 /venv/bin/python /tmp/ref_V11/demo.py
Prints PASS and exits 0 when every relation holds, prints FAIL and exits 1 otherwise.
Only the long-standing public API is used (constructor, fit, transform with n_jobs).
"""
import sys
import warnings

warnings.filterwarnings("ignore")

import numpy as np

import persim
from persim import PersistenceImager

print("persim from", persim.__file__)

rng = np.random.default_rng(11)
problems = []


def check(label, ok, detail=""):
    print("  %-66s %s %s" % (label, "ok" if ok else "VIOLATED", detail))
    if not ok:
        problems.append(label)


def same(a, b):
    return a.shape == b.shape and np.allclose(a, b, rtol=0, atol=1e-10)


def relations(title, imgr, dgms):
    """dgms: birth-death diagrams; the last one is empty."""
    print("%s: resolution %s, pixel_size %s, birth_range %s" % (title, imgr.resolution, imgr.pixel_size, imgr.birth_range))
    serial = imgr.transform(dgms)
    alone = [imgr.transform(d) for d in dgms]
    inproc = imgr.transform(dgms, n_jobs=1)
    workers = imgr.transform(dgms, n_jobs=2)
    check("alone == inside a collection", all(same(a, s) for a, s in zip(alone, serial)))
    check("n_jobs=1 == serial", all(same(a, s) for a, s in zip(inproc, serial)))
    check(
        "parallel workers (n_jobs=2) == serial",
        len(workers) == len(serial) and all(same(w, s) for w, s in zip(workers, serial)),
        "shapes %s vs %s" % (sorted({w.shape for w in workers}), sorted({s.shape for s in serial})),
    )
    check(
        "empty diagram in a parallel collection -> zeros of the configured resolution",
        workers[-1].shape == tuple(imgr.resolution) and not workers[-1].any(),
        "got %s, configured %s" % (workers[-1].shape, tuple(imgr.resolution)),
    )
    union = np.vstack(dgms)
    total = imgr.transform(union)
    check(
        "image of the union == sum of the images made by the workers",
        workers[0].shape == total.shape and np.allclose(sum(workers), total, rtol=0, atol=1e-9),
    )
    pre = [np.column_stack([d[:, 0], d[:, 1] - d[:, 0]]) for d in dgms]
    converted = imgr.transform(pre, skew=False, n_jobs=2)
    check("birth-death == pre-converted birth-persistence (both by workers)", all(same(c, w) for c, w in zip(converted, workers)))
    single = imgr.transform(dgms[0], n_jobs=2)
    check("single diagram through a worker == single diagram serially", isinstance(single, np.ndarray) and same(single, alone[0]))


def diagrams(n, lo, hi):
    out = []
    for _ in range(n):
        b = rng.uniform(lo, hi, size=6)
        out.append(np.column_stack([b, b + rng.uniform(0.05, hi - lo, size=6)]))
    out.append(np.zeros((0, 2)))
    return out


# 1. ranges that are a whole number of pixels (the defaults of the test-suite): nothing to adjust
relations("commensurable", PersistenceImager(birth_range=(0.0, 1.0), pers_range=(0.0, 1.0), pixel_size=0.2), diagrams(3, 0.0, 1.0))

# 2. ranges that are not a whole number of pixels: the imager widens them symmetrically to fit the pixel size
relations("adjusted ranges", PersistenceImager(birth_range=(0.0, 1.0), pers_range=(0.0, 1.0), pixel_size=0.3), diagrams(3, 0.0, 1.0))

# 3. ranges chosen by fit()
dgms = diagrams(4, 0.3, 2.5)
imgr = PersistenceImager(pixel_size=0.3, weight="linear_ramp", weight_params={"low": 0.0, "high": 1.0, "start": 0.0, "end": 2.0})
imgr.fit(dgms[:-1])
relations("fitted ranges", imgr, dgms)

if problems:
    print("FAIL (%d relation(s) violated)" % len(problems))
    sys.exit(1)
print("PASS")
sys.exit(0)
