"""C20 demo: in lifetime mode, points with infinite death must sit ON the
infinity line that plot_diagrams draws (and finite points at (b, d-b))."""
import sys
import numpy as np
import matplotlib
matplotlib.use("Agg")
import matplotlib.pyplot as plt
from matplotlib.collections import PathCollection

import persim
from persim import plot_diagrams


def check(diagrams, **kw):
    fig, ax = plt.subplots()
    plot_diagrams(diagrams, ax=ax, show=False, **kw)
    inf_lines = [l for l in ax.lines if l.get_label() == r"$\infty$"]
    assert len(inf_lines) == 1, "expected exactly one infinity line"
    y_inf = np.float32(inf_lines[0].get_ydata()[0])
    y_lo, y_hi = ax.get_ylim()
    ok = y_lo < y_inf < y_hi
    cols = [c for c in ax.get_children() if isinstance(c, PathCollection)]
    ok = ok and len(cols) == len(diagrams)
    for dgm, col in zip(diagrams, cols):
        d32 = dgm.astype(np.float32)
        exp = d32.copy()
        if kw.get("lifetime"):
            exp[:, 1] = d32[:, 1] - d32[:, 0]
        exp[np.isinf(d32[:, 1]), 1] = y_inf
        got = np.asarray(col.get_offsets(), dtype=np.float32)
        if got.shape != exp.shape or not np.allclose(got, exp, rtol=1e-6, atol=0):
            ok = False
            print("  mismatch (%s):\n  expected\n%s\n  drawn\n%s" % (kw, exp, got))
    plt.close(fig)
    return ok


def main():
    print("persim from", persim.__file__)
    dgms = [
        np.array([[0.0, np.inf], [0.5, 1.5]]),
        np.array([[1.0, 2.0], [2.0, np.inf], [3.0, 5.0]]),   # essential class born at 2
    ]
    results = [
        check(dgms),                    # birth/death mode
        check(dgms, lifetime=True),     # lifetime mode
        check(dgms, lifetime=True, xy_range=[-1, 6, -1, 6]),
    ]
    if all(results):
        print("PASS")
        return 0
    print("FAIL")
    return 1


if __name__ == "__main__":
    sys.exit(main())
