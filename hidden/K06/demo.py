"""
C06 demo: a matching returned by bottleneck()/wasserstein() must certify the
reported distance.

For a handful of fixed diagram pairs (and some random ones) check that
  * the distance is the same with and without matching=True,
  * every point of each diagram appears in exactly one row, no row is
    diagonal-to-diagonal,
  * the third entry of each row is the cost of that pairing, recomputed here
    from the coordinates,
  * max (bottleneck) / sum (Wasserstein) of the row costs is the distance.

Prints PASS and exits 0 if all of that holds, prints FAIL and exits 1 otherwise.
Run from inside the worktree:  cd <tree> && PYTHONPATH=<tree> python demo.py
"""
import sys
import warnings

import numpy as np

from persim import bottleneck, wasserstein


def effective(dgm):
    dgm = np.asarray(dgm, dtype=float)
    if dgm.size == 0:
        return np.array([[0.0, 0.0]])
    return dgm


def linf_cost(A, B, i, j):
    if i >= 0 and j >= 0:
        return max(abs(A[i, 0] - B[j, 0]), abs(A[i, 1] - B[j, 1]))
    if j < 0:
        return 0.5 * (A[i, 1] - A[i, 0])
    return 0.5 * (B[j, 1] - B[j, 0])


def l2_cost(A, B, i, j):
    if i >= 0 and j >= 0:
        return float(np.hypot(A[i, 0] - B[j, 0], A[i, 1] - B[j, 1]))
    if j < 0:
        return (A[i, 1] - A[i, 0]) / np.sqrt(2)
    return (B[j, 1] - B[j, 0]) / np.sqrt(2)


def check(name, func, cost, combine, dgm1, dgm2):
    problems = []
    with warnings.catch_warnings():
        warnings.simplefilter("ignore")
        d_plain = func(dgm1, dgm2)
        d, m = func(dgm1, dgm2, matching=True)
    A, B = effective(dgm1), effective(dgm2)
    if not np.isclose(d_plain, d, rtol=1e-12, atol=0):
        problems.append("distance %r with matching, %r without" % (d, d_plain))
    m = np.asarray(m, dtype=float).reshape(-1, 3)
    left = sorted(int(i) for i in m[:, 0] if i >= 0)
    right = sorted(int(j) for j in m[:, 1] if j >= 0)
    if left != list(range(A.shape[0])):
        problems.append("first diagram indices %r" % (left,))
    if right != list(range(B.shape[0])):
        problems.append("second diagram indices %r" % (right,))
    if np.any((m[:, 0] < 0) & (m[:, 1] < 0)):
        problems.append("diagonal-to-diagonal row")
    if not problems:
        for i, j, c in m:
            want = cost(A, B, int(i), int(j))
            if not np.isclose(c, want, rtol=1e-9, atol=1e-12):
                problems.append(
                    "row (%d, %d) carries cost %r, the pairing costs %r"
                    % (i, j, c, want)
                )
        total = combine(m[:, 2])
        if not np.isclose(total, d, rtol=1e-9, atol=1e-12):
            problems.append(
                "rows give %r, reported distance is %r" % (total, d)
            )
    for p in problems:
        print("  %s %s vs %s: %s" % (name, np.asarray(dgm1).tolist(),
                                     np.asarray(dgm2).tolist(), p))
    return not problems


def cases():
    # one far point on each side goes to the other diagram, the two small
    # ones go to the diagonal: the optimal matching is unique
    yield [[0, 10], [20, 21]], [[40, 41], [1, 11]]
    # cyclic pairing A0-B1, A1-B2, A2-B0
    yield [[0, 10], [20, 40], [50, 90]], [[51, 91], [1, 11], [21, 41]]
    # unequal sizes
    yield [[0, 10], [3, 4], [20, 40]], [[21, 41], [1, 11]]
    yield [[5, 9]], [[0, 1], [2, 3], [5.5, 9.5]]
    # the example of the test-suite
    yield [[0.5, 1], [0.6, 1.1]], [[0.5, 1.1], [0.6, 1.1], [0.8, 1.1], [1.0, 1.1]]
    # an empty diagram, single points, identical diagrams
    yield [], [[1, 2], [3, 7]]
    yield [[0, 10]], [[5, 5]]
    yield [[0, 2], [1, 5]], [[0, 2], [1, 5]]
    rng = np.random.default_rng(6)
    for _ in range(25):
        M, N = rng.integers(1, 6, 2)
        a = rng.random((M, 2)) * 10
        b = rng.random((N, 2)) * 10
        a[:, 1] += a[:, 0]
        b[:, 1] += b[:, 0]
        yield a, b


def main():
    ok = True
    for dgm1, dgm2 in cases():
        dgm1, dgm2 = np.array(dgm1), np.array(dgm2)
        ok &= check("bottleneck", bottleneck, linf_cost, np.max, dgm1, dgm2)
        ok &= check("wasserstein", wasserstein, l2_cost, np.sum, dgm1, dgm2)
    print("PASS" if ok else "FAIL")
    return 0 if ok else 1


if __name__ == "__main__":
    sys.exit(main())
