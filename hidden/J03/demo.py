"""Demo for property C03 (exact landscape == k-th largest tent, for the requested degree).

Run from inside the worktree so that the local copy of persim is imported:

    cd /tmp/wt_J03 && PYTHONPATH=/tmp/wt_J03 /venv/bin/python /tmp/ref_J03/demo.py

The exact landscape of a collection of diagrams is computed for every
homological degree present in the collection and compared, on a fine grid of
t and for every depth k, with the definition: the k-th largest value of
max(0, min(t - b, d - t)) over the bars (b, d) of the diagram of THAT degree.
Prints PASS / exits 0 when they agree everywhere, prints FAIL / exits 1 otherwise.
"""
import sys

import numpy as np

import persim
from persim import PersLandscapeExact


def tent_landscape(bars, ts):
    """rows k = 0, 1, ...: k-th largest tent value at every t (the definition)."""
    bars = np.asarray(bars, dtype=float)
    tents = np.maximum(
        0.0, np.minimum(ts[None, :] - bars[:, [0]], bars[:, [1]] - ts[None, :])
    )
    return -np.sort(-tents, axis=0)


def evaluate(critical_pairs, ts):
    """Linear interpolation of one depth's critical pairs, zero outside them."""
    xs = np.array([float(p[0]) for p in critical_pairs])
    ys = np.array([float(p[1]) for p in critical_pairs])
    assert np.all(np.diff(xs) >= 0), "critical points not ordered by abscissa"
    return np.interp(ts, xs, ys, left=0.0, right=0.0)


def check(dgms, hom_deg):
    pl = PersLandscapeExact(dgms=dgms, hom_deg=hom_deg)
    bars = dgms[hom_deg]
    lo = min(float(np.min(d)) for d in dgms) - 1.0
    hi = max(float(np.max(d)) for d in dgms) + 1.0
    ts = np.unique(np.concatenate([np.linspace(lo, hi, 4001), np.ravel(bars)]))
    want = tent_landscape(bars, ts)
    got = np.zeros_like(want)  # depths beyond the last one returned are zero
    problems = []
    if len(pl.critical_pairs) > len(bars):
        extra = [evaluate(cp, ts) for cp in pl.critical_pairs[len(bars):]]
        if np.max(np.abs(extra)) > 1e-12:
            problems.append("non-zero depth beyond the number of bars")
    for k, cp in enumerate(pl.critical_pairs[: len(bars)]):
        got[k] = evaluate(cp, ts)
    err = np.abs(got - want)
    if err.max() > 1e-9:
        k, j = np.unravel_index(np.argmax(err), err.shape)
        problems.append(
            f"depth {k + 1} at t={ts[j]:.4g}: landscape {got[k, j]:.4g}, "
            f"definition {want[k, j]:.4g}"
        )
    return problems


def main():
    print("persim imported from", persim.__file__)
    # two diagrams in one collection (degree 0 and degree 1), no repeated bars
    collections = [
        [
            np.array([[0.0, 2.0], [0.0, 5.0], [1.0, 3.0]]),
            np.array([[1.0, 5.0], [2.0, 8.0], [3.0, 4.0], [5.0, 9.0], [6.0, 7.0]]),
        ],
        [
            np.array([[0.5, 3.0], [2.0, 4.0], [4.0, 5.0], [10.0, 15.0]]),
            np.array([[-2.0, 1.0], [-1.0, 4.0], [-1.0, 2.5], [0.5, 2.5]]),
            np.array([[7.0, 7.5]]),
        ],
    ]
    failures = []
    for c, dgms in enumerate(collections):
        for hom_deg in range(len(dgms)):
            for msg in check(dgms, hom_deg):
                failures.append(f"collection {c}, hom_deg={hom_deg}: {msg}")
    for msg in failures:
        print("  mismatch:", msg)
    if failures:
        print("FAIL")
        return 1
    print("PASS")
    return 0


if __name__ == "__main__":
    sys.exit(main())
