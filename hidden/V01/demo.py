"""C01: persim.bottleneck must return the true min-max matching cost; points
with an infinite death time are dropped and must not influence the value.

The reference value is computed by brute force over all matchings of the
finite points (each point is paired with a point of the other diagram or with
the diagonal)."""
import itertools
import sys
import warnings

import numpy as np

from persim import bottleneck


def brute(A, B):
    A = [p for p in A if np.isfinite(p[1])]
    B = [p for p in B if np.isfinite(p[1])]
    m, n = len(A), len(B)
    if m + n == 0:
        return 0.0
    cost = np.zeros((m + n, m + n))
    for i, (b, d) in enumerate(A):
        for j, (c, e) in enumerate(B):
            cost[i, j] = max(abs(b - c), abs(d - e))
        cost[i, n:] = (d - b) / 2.0
    for j, (c, e) in enumerate(B):
        cost[m:, j] = (e - c) / 2.0
    return min(
        max(cost[i, p[i]] for i in range(m + n))
        for p in itertools.permutations(range(m + n))
    )


def check(A, B):
    with warnings.catch_warnings():
        warnings.simplefilter("ignore")
        got = bottleneck(np.array(A, dtype=float), np.array(B, dtype=float))
    want = brute(A, B)
    ok = abs(got - want) <= 1e-12
    print("%-4s bottleneck=%r expected=%r  %r vs %r" % ("ok" if ok else "BAD", got, want, A, B))
    return ok


inf = float("inf")
good = True
# essential class listed last (the order ripser produces): fine everywhere
good &= check([[0, 4], [0, 1], [0, inf]], [[0, 3]])
# essential class listed first / in the middle
good &= check([[0, inf], [0, 4], [0, 1]], [[0, 3]])
good &= check([[0, 1], [0, inf], [0, 4]], [])
good &= check([[1, 2]], [[0, inf], [0, inf], [2, 6], [3, 4]])
rng = np.random.default_rng(7)
for _ in range(40):
    A = np.round(rng.random((rng.integers(0, 4), 2)) * 8).cumsum(axis=1)
    B = np.round(rng.random((rng.integers(0, 4), 2)) * 8).cumsum(axis=1)
    if len(A):
        A[rng.integers(0, len(A)), 1] = inf
    good &= check(A.tolist(), B.tolist())

print("PASS" if good else "FAIL")
sys.exit(0 if good else 1)
