"""C10 demo: landscape p-norms must equal the integrals they name, for every p,
whatever was asked of the library before.

Run from inside the worktree:
    cd /tmp/wt_T10 && PYTHONPATH=/tmp/wt_T10 /venv/bin/python /tmp/ref_T10/demo.py
"""
import sys
import warnings

import numpy as np

warnings.simplefilter("ignore")
from persim.landscapes import PersLandscapeApprox, PersLandscapeExact  # noqa: E402


def reference_norm(depths, p):
    """p-th root of the sum over depths of the integral of |f|^p (independent
    closed form through the signed antiderivative sign(y)|y|^(p+1)/(p+1))."""
    total = 0.0
    for pts in depths:
        pts = np.asarray(pts, dtype=float)
        for (x0, y0), (x1, y1) in zip(pts, pts[1:]):
            if y0 == y1:
                total += abs(y0) ** p * (x1 - x0)
            else:
                F1 = np.sign(y1) * abs(y1) ** (p + 1)
                F0 = np.sign(y0) * abs(y0) ** (p + 1)
                total += abs((F1 - F0) * (x1 - x0) / ((y1 - y0) * (p + 1)))
    return total ** (1.0 / p)


failures = []


def expect(label, got, want):
    ok = np.isfinite(got) and abs(got - want) <= 1e-9 * max(1.0, abs(want))
    print(f"  {label:<46} got {got:.12g}  want {want:.12g}  {'ok' if ok else 'MISMATCH'}")
    if not ok:
        failures.append(label)


# two diagrams, their exact landscapes and the difference used for distances
A = PersLandscapeExact(dgms=[np.array([[0.0, 6.0], [1.0, 4.0], [2.5, 7.0]])])
B = PersLandscapeExact(dgms=[np.array([[0.5, 5.0], [3.0, 8.0]])])
D = A - B

print("exact landscape A, several p in a row")
for p in (1, 2, 3, 2.5, 1):
    expect(f"A.p_norm({p})", A.p_norm(p), reference_norm(A.critical_pairs, p))

print("difference A - B (sign changes), several p in a row")
for p in (2, 1, 4, 1.5):
    expect(f"(A - B).p_norm({p})", D.p_norm(p), reference_norm(D.critical_pairs, p))

print("absolute homogeneity and triangle inequality with p = 3 after the above")
expect("(-2.5 * A).p_norm(3) == 2.5 * |A|_3", (-2.5 * A).p_norm(3), 2.5 * reference_norm(A.critical_pairs, 3))
lhs, rhs = (A + B).p_norm(3), reference_norm(A.critical_pairs, 3) + reference_norm(B.critical_pairs, 3)
print(f"  |A + B|_3 = {lhs:.12g} <= |A|_3 + |B|_3 = {rhs:.12g}")
if not lhs <= rhs * (1 + 1e-12):
    failures.append("triangle")

print("grid landscape of the same difference")
kw = dict(start=0.0, stop=8.0, num_steps=33)
GA = PersLandscapeApprox(dgms=[np.array([[0.0, 6.0], [1.0, 4.0], [2.5, 7.0]])], **kw)
GB = PersLandscapeApprox(dgms=[np.array([[0.5, 5.0], [3.0, 8.0]])], **kw)
GD = GA - GB
grid = np.linspace(kw["start"], kw["stop"], kw["num_steps"])
for p in (3, 2, 1):
    expect(f"(GA - GB).p_norm({p})", GD.p_norm(p), reference_norm([np.column_stack([grid, v]) for v in GD.values], p))

if failures:
    print("FAIL:", ", ".join(failures))
    sys.exit(1)
print("PASS")
sys.exit(0)
