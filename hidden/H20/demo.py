"""C20 demo: a matching plot must draw, on the given axes, one segment per
matched pair -- joining the two matched points, or a point and its
perpendicular foot on the diagonal -- and mark the bottleneck pair distinctly.

Run from inside the worktree:
    cd /tmp/wt_H20 && PYTHONPATH=/tmp/wt_H20 /venv/bin/python /tmp/ref_H20/demo.py
"""
import sys
import warnings

import matplotlib

matplotlib.use("Agg")
import matplotlib.pyplot as plt
import numpy as np

import persim

warnings.filterwarnings("ignore")


def expected_segments(dgm1, dgm2, matching):
    """Independent oracle: end points of the segment of every matching row."""
    segs = []
    for i, j, _ in matching:
        i, j = int(i), int(j)
        if i == -1 and j == -1:
            continue
        if i == -1:
            p = dgm2[j]
            q = np.full(2, (p[0] + p[1]) / 2.0)
        elif j == -1:
            p = dgm1[i]
            q = np.full(2, (p[0] + p[1]) / 2.0)
        else:
            p, q = dgm1[i], dgm2[j]
        segs.append(np.array([p, q], dtype=float))
    return segs


def drawn_segments(ax):
    """All two-point Line2D artists on the axes (matching segments, plus the
    diagonal / infinity lines drawn by plot_diagrams, which never coincide
    with an expected segment here)."""
    out = []
    for line in ax.get_lines():
        xy = np.asarray(line.get_xydata(), dtype=float)
        if xy.shape != (2, 2):
            continue
        out.append((xy, line))
    return out


def has_segment(drawn, seg):
    for xy, line in drawn:
        if np.allclose(xy, seg, atol=1e-9) or np.allclose(xy[::-1], seg, atol=1e-9):
            return line
    return None


def check(name, plot_fn, dgm1, dgm2, matching, bottleneck_style):
    fig, ax = plt.subplots()
    plot_fn(dgm1, dgm2, matching, ax=ax)
    drawn = drawn_segments(ax)
    ok = True
    segs = expected_segments(dgm1, dgm2, matching)
    rows = [r for r in matching if not (int(r[0]) == -1 and int(r[1]) == -1)]
    max_row = int(np.argmax(matching[:, 2]))
    for k, (seg, row) in enumerate(zip(segs, rows)):
        line = has_segment(drawn, seg)
        if line is None:
            print("  [%s] row %s: expected segment %s -> %s is NOT drawn"
                  % (name, row.tolist(), seg[0].tolist(), seg[1].tolist()))
            ok = False
            continue
        if bottleneck_style:
            is_max = np.array_equal(row, matching[max_row])
            if is_max and not (line.get_linestyle() == "-" and line.get_linewidth() == 2):
                print("  [%s] bottleneck row %s not highlighted" % (name, row.tolist()))
                ok = False
    plt.close(fig)
    return ok


def main():
    ok = True

    # dgm1[0] is a short-lived class that has no partner in dgm2: both
    # distances send it to the diagonal, i.e. the matching has a row (0, -1).
    dgm1 = np.array([[0.0, 0.3], [1.0, 3.0], [2.0, 5.0]])
    dgm2 = np.array([[1.1, 3.2], [2.2, 5.1]])

    d, bm = persim.bottleneck(dgm1, dgm2, matching=True)
    assert any(int(r[0]) == 0 and int(r[1]) == -1 for r in bm), bm
    ok &= check("bottleneck_matching", persim.bottleneck_matching, dgm1, dgm2, bm, True)

    d, wm = persim.wasserstein(dgm1, dgm2, matching=True)
    assert any(int(r[0]) == 0 and int(r[1]) == -1 for r in wm), wm
    ok &= check("wasserstein_matching", persim.wasserstein_matching, dgm1, dgm2, wm, False)

    # control: only later points of dgm1 go to the diagonal, and a point of
    # dgm2 goes to the diagonal
    dgm3 = np.array([[1.0, 3.0], [0.0, 0.3], [4.0, 4.2]])
    dgm4 = np.array([[1.1, 3.2], [6.0, 6.4]])
    d, bm2 = persim.bottleneck(dgm3, dgm4, matching=True)
    ok &= check("bottleneck_matching/control", persim.bottleneck_matching, dgm3, dgm4, bm2, True)
    d, wm2 = persim.wasserstein(dgm3, dgm4, matching=True)
    ok &= check("wasserstein_matching/control", persim.wasserstein_matching, dgm3, dgm4, wm2, False)

    if ok:
        print("PASS")
        return 0
    print("FAIL")
    return 1


if __name__ == "__main__":
    sys.exit(main())
