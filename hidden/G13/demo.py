"""Demo for property C13: the Gaussian kernel is an accurate bivariate normal CDF.

Run from inside the worktree so that the worktree's persim is imported:

    cd /tmp/wt_G13 && PYTHONPATH=/tmp/wt_G13 /venv/bin/python /tmp/ref_G13/demo.py

Prints PASS and exits 0 if, for correlations on both sides of every branch
threshold (0.3, 0.75, 0.925) and of both signs, the kernel
  * agrees with an independent reference bivariate normal CDF to 1e-7,
  * stays in [0, 1],
  * is non-decreasing in each argument,
  * gives non-negative mass to every grid rectangle;
otherwise prints FAIL and exits 1.
"""
import sys
import warnings

import numpy as np
from scipy.integrate import quad
from scipy.special import erfc

import persim
from persim import images_kernels

TOL = 1e-7


def phi(t):
    return erfc(-t / np.sqrt(2.0)) / 2.0


def reference_cdf(h, k, r):
    """P(X <= h, Y <= k) for a standard bivariate normal with correlation r.

    Plackett's identity: dPhi2/dr is the bivariate density at (h, k), so
    Phi2(h, k; r) = Phi(h) Phi(k) + int_0^asin(r) exp(-(h^2+k^2-2hk sin t) / (2 cos^2 t)) dt / (2 pi),
    integrated adaptively (independent of the fixed Gauss-Legendre rules in persim).
    """
    def f(t):
        return np.exp(-(h * h + k * k - 2.0 * h * k * np.sin(t)) / (2.0 * np.cos(t) ** 2))

    with warnings.catch_warnings():
        warnings.simplefilter("ignore")
        val, _ = quad(f, 0.0, np.arcsin(r), epsabs=1e-13, epsrel=1e-13, limit=400)
    return phi(h) * phi(k) + val / (2.0 * np.pi)


def check(r, mu, var_x, var_y):
    problems = []
    sd_x, sd_y = np.sqrt(var_x), np.sqrt(var_y)
    sigma = np.array([[var_x, r * sd_x * sd_y], [r * sd_x * sd_y, var_y]])

    z = np.linspace(-5.0, 5.0, 21)  # standardized grid, reaches into the tails
    zx, zy = np.meshgrid(z, z, indexing="ij")
    bx = mu[0] + sd_x * zx.ravel()
    py = mu[1] + sd_y * zy.ravel()

    got = np.asarray(images_kernels.gaussian(bx, py, mu=np.array(mu), sigma=sigma), dtype=float)
    want = np.array([reference_cdf(a, b, r) for a, b in zip(zx.ravel(), zy.ravel())])

    err = np.max(np.abs(got - want))
    if not err <= TOL:
        problems.append("max |kernel - reference| = %.3g" % err)
    if got.min() < -1e-12 or got.max() > 1 + 1e-12:
        problems.append("values outside [0,1]: min %.3g max %.3g" % (got.min(), got.max()))

    grid = got.reshape(len(z), len(z))
    if np.diff(grid, axis=0).min() < -1e-9 or np.diff(grid, axis=1).min() < -1e-9:
        problems.append("not monotone (min step %.3g)" % min(np.diff(grid, axis=0).min(), np.diff(grid, axis=1).min()))
    mass = grid[1:, 1:] - grid[:-1, 1:] - grid[1:, :-1] + grid[:-1, :-1]
    if mass.min() < -1e-9:
        problems.append("negative rectangle mass %.3g" % mass.min())
    return problems


def main():
    print("persim imported from", persim.__file__)
    correlations = [0.0, 0.2, -0.2, 0.31, -0.31, 0.5, -0.5, 0.76, -0.76, 0.9, -0.9,
                    0.93, -0.93, 0.95, -0.95, 0.99, -0.99]
    settings = [((0.0, 0.0), 1.0, 1.0), ((1.5, 0.4), 0.01, 25.0)]
    failed = False
    for r in correlations:
        for mu, vx, vy in settings:
            problems = check(r, mu, vx, vy)
            status = "ok" if not problems else "VIOLATION: " + "; ".join(problems)
            print("r=%+.2f mu=%s var=(%g,%g): %s" % (r, mu, vx, vy, status))
            failed = failed or bool(problems)
    if failed:
        print("FAIL")
        return 1
    print("PASS")
    return 0


if __name__ == "__main__":
    sys.exit(main())
