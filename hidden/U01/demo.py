"""C01 demo: persim.bottleneck must equal the true min-max matching cost.

The same diagrams are given once as float64 arrays and once in the integer
dtypes a filtration of an 8/16-bit image produces (uint8, uint16, ...).  The
value must not depend on the dtype the diagram arrives in, and must equal an
independent brute force over all matchings (points paired with points at their
L-infinity distance, or sent to the diagonal at (d - b) / 2).

Run from inside the tree under test:
    cd <tree> && PYTHONPATH=<tree> /venv/bin/python /tmp/ref_U01/demo.py
Prints PASS and exits 0 if every value is right, prints FAIL and exits 1 otherwise.
"""
import itertools
import sys
import warnings

import numpy as np

import persim
from persim import bottleneck


def brute_force(A, B):
    """min over all partial pairings of max cost, in plain Python floats."""
    A = [(float(b), float(d)) for b, d in A]
    B = [(float(b), float(d)) for b, d in B]
    m, n = len(A), len(B)
    diagA = [(d - b) / 2 for b, d in A]
    diagB = [(d - b) / 2 for b, d in B]
    best = float("inf")
    # every point of A goes to a distinct point of B or to the diagonal (None)
    targets = list(range(n)) + [None] * m
    for assign in set(itertools.permutations(targets, m)):
        cost = 0.0
        used = set()
        for i, j in enumerate(assign):
            if j is None:
                cost = max(cost, diagA[i])
            else:
                used.add(j)
                cost = max(cost, abs(A[i][0] - B[j][0]), abs(A[i][1] - B[j][1]))
        for j in range(n):
            if j not in used:
                cost = max(cost, diagB[j])
        best = min(best, cost)
    return best


def main():
    print("persim imported from", persim.__file__)
    rng = np.random.default_rng(13)
    cases = [
        # the example of the earlier float-conversion fix
        ([[10, 40], [100, 200]], [[26, 56], [5, 250]]),
        ([[0, 10]], [[2, 10]]),
        ([[3, 200]], [[5, 190], [7, 7]]),
    ]
    for _ in range(60):
        m, n = int(rng.integers(0, 4)), int(rng.integers(1, 4))
        A = np.sort(rng.integers(0, 256, size=(m, 2)), axis=1)
        B = np.sort(rng.integers(0, 256, size=(n, 2)), axis=1)
        cases.append((A.tolist(), B.tolist()))

    bad = []
    checked = 0
    with warnings.catch_warnings():
        warnings.simplefilter("ignore")
        for A, B in cases:
            want = brute_force(A, B)
            for dt in (np.float64, np.int64, np.uint8, np.uint16):
                a = np.array(A, dtype=dt).reshape(-1, 2)
                b = np.array(B, dtype=dt).reshape(-1, 2)
                got = bottleneck(a, b)
                checked += 1
                if not np.isclose(got, want, rtol=1e-12, atol=0):
                    bad.append((np.dtype(dt).name, A, B, float(got), want))

    print("checked", checked, "calls")
    for name, A, B, got, want in bad[:8]:
        print("  dtype=%s dgm1=%s dgm2=%s: bottleneck=%r, true min-max cost=%r" % (name, A, B, got, want))
    if bad:
        print("%d wrong values" % len(bad))
        print("FAIL")
        return 1
    print("PASS")
    return 0


if __name__ == "__main__":
    sys.exit(main())
