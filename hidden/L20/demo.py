"""C20 demo: a bottleneck matching plot draws one segment per matched pair and
marks the bottleneck pair (the row with the largest distance) -- and only that
one -- distinctly (solid, width 2, colour C3); every other pair is dashed,
width 1, colour C2.  Checked on two successive calls in one process.

Run from inside the worktree:
    cd /tmp/wt_L20 && PYTHONPATH=/tmp/wt_L20 /venv/bin/python /tmp/ref_L20/demo.py
"""
import sys
import warnings

import numpy as np
import matplotlib

matplotlib.use("Agg")
import matplotlib.pyplot as plt
from matplotlib.colors import to_rgba

import persim

warnings.simplefilter("ignore")

PLAIN = (to_rgba("C2"), "--", 1.0)
HOT = (to_rgba("C3"), "-", 2.0)


def expected_segments(dgm1, dgm2, matching):
    """(row, (x0, y0), (x1, y1)) for every row with an off-diagonal point."""
    out = []
    for row, (i, j, _) in enumerate(matching):
        i, j = int(i), int(j)
        if i == -1 and j == -1:
            continue
        if i == -1:
            p = dgm2[j]
            q = np.full(2, (p[0] + p[1]) / 2)
        elif j == -1:
            p = dgm1[i]
            q = np.full(2, (p[0] + p[1]) / 2)
        else:
            p, q = dgm1[i], dgm2[j]
        out.append((row, p, q))
    return out


def check(dgm1, dgm2, tag):
    problems = []
    _, matching = persim.bottleneck(dgm1, dgm2, matching=True)
    fig, ax = plt.subplots()
    persim.bottleneck_matching(dgm1, dgm2, matching, ax=ax)
    # plot_diagrams contributes the diagonal (no infinite deaths here)
    seg_lines = ax.lines[1:]
    want = expected_segments(dgm1, dgm2, matching)
    if len(seg_lines) != len(want):
        problems.append("%s: %d segments drawn, %d expected" % (tag, len(seg_lines), len(want)))
    hot_row = int(np.argmax(matching[:, 2]))
    for line, (row, p, q) in zip(seg_lines, want):
        xy = np.column_stack([line.get_xdata(), line.get_ydata()]).astype(float)
        if not np.allclose(xy, [p, q], rtol=0, atol=1e-9):
            problems.append("%s: row %d drawn at %s, expected %s -> %s" % (tag, row, xy.tolist(), p, q))
        style = (to_rgba(line.get_color()), line.get_linestyle(), float(line.get_linewidth()))
        expect = HOT if row == hot_row else PLAIN
        if style != expect:
            problems.append(
                "%s: row %d (bottleneck row is %d) drawn with colour/linestyle/width %s, expected %s"
                % (tag, row, hot_row, style, expect)
            )
    plt.close(fig)
    return problems


def main():
    # The bottleneck pair (point 0 of the first diagram, far from everything)
    # is the FIRST row of the matching, several ordinary rows follow it.
    a1 = np.array([[0.0, 3.0], [1.0, 1.4], [2.0, 2.5], [4.0, 4.2]])
    b1 = np.array([[1.1, 1.5], [2.1, 2.4], [5.0, 5.1]])
    # A second, unrelated call in the same process; bottleneck row is last.
    a2 = np.array([[0.0, 0.2], [1.0, 1.1]])
    b2 = np.array([[0.0, 0.25], [3.0, 5.0]])

    problems = check(a1, b1, "first call") + check(a2, b2, "second call")
    if problems:
        for p in problems:
            print(p)
        print("FAIL")
        return 1
    print("PASS")
    return 0


if __name__ == "__main__":
    sys.exit(main())
