"""Demo for property C14 (heat-kernel distance is the Reininghaus et al. pseudo-metric).

Run from inside the worktree:
    cd /tmp/wt_P14 && PYTHONPATH=/tmp/wt_P14 /venv/bin/python /tmp/ref_P14/demo.py

Checks, for several sigma (default and non-default):
  1. heat(F, G, sigma) equals sqrt(k(F,F)+k(G,G)-2k(F,G)) for an independent
     implementation of the multi-scale kernel
       k(F,G) = 1/(8 pi sigma) sum_{p,q} exp(-|p-q|^2/(8 sigma)) - exp(-|p-qbar|^2/(8 sigma))
  2. points on the diagonal are ignored
  3. the stability bound heat <= W1 / (4 sigma sqrt(pi)) on one-point diagrams
     (where W1 is known in closed form)
Prints PASS and exits 0 if everything holds, otherwise FAIL and exits 1.
"""
import sys

import numpy as np

import persim
from persim import heat


def ref_kernel(F, G, sigma):
    F = np.asarray(F, dtype=float).reshape(-1, 2)
    G = np.asarray(G, dtype=float).reshape(-1, 2)
    d = ((F[:, None, :] - G[None, :, :]) ** 2).sum(-1)
    dm = ((F[:, None, :] - G[None, :, ::-1]) ** 2).sum(-1)
    return (np.exp(-d / (8 * sigma)) - np.exp(-dm / (8 * sigma))).sum() / (8 * np.pi * sigma)


def ref_heat(F, G, sigma):
    return np.sqrt(max(ref_kernel(F, F, sigma) + ref_kernel(G, G, sigma) - 2 * ref_kernel(F, G, sigma), 0.0))


def main():
    print("persim from", persim.__file__)
    rng = np.random.default_rng(14)
    problems = []

    F = np.array([[0.0, 1.0], [0.5, 2.5], [1.0, 1.2]])
    G = np.array([[0.1, 1.3], [0.4, 2.0]])
    diag = np.array([[0.7, 0.7], [3.0, 3.0]])

    for sigma in (None, 0.4, 0.05, 1.0, 3.0):
        kw = {} if sigma is None else {"sigma": sigma}
        s = 0.4 if sigma is None else sigma

        # 1. closed form
        for trial in range(5):
            if trial == 0:
                A, B = F, G
            else:
                b = rng.normal(0, 1, (2, 4))
                A = np.c_[b[0], b[0] + rng.exponential(1, 4)]
                B = np.c_[b[1], b[1] + rng.exponential(1, 4)]
            got, want = heat(A, B, **kw), ref_heat(A, B, s)
            if not np.isfinite(got) or abs(got - want) > 1e-9 * max(1.0, want):
                problems.append("sigma=%r: heat=%.12g but closed form gives %.12g" % (sigma, got, want))

        # 2. diagonal points are ignored
        a, b = heat(F, G, **kw), heat(np.r_[F, diag], G, **kw)
        if abs(a - b) > 1e-9:
            problems.append("sigma=%r: diagonal points change the distance: %.12g vs %.12g" % (sigma, a, b))

        # 3. stability on one-point diagrams: W1(with L-inf ground metric) of
        #    {(0,1)} and {(0,1+e)} is e for small e
        e = 0.05
        d = heat(np.array([[0.0, 1.0]]), np.array([[0.0, 1.0 + e]]), **kw)
        bound = e / (4 * s * np.sqrt(np.pi))
        if not d <= bound * (1 + 1e-9):
            problems.append("sigma=%r: heat=%.6g exceeds W1/(4 sigma sqrt(pi))=%.6g" % (sigma, d, bound))

    for p in problems[:8]:
        print("  violation:", p)
    if problems:
        print("FAIL (%d violations)" % len(problems))
        return 1
    print("PASS")
    return 0


if __name__ == "__main__":
    sys.exit(main())
