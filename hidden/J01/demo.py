"""
C01 demo: persim.bottleneck must equal the true min-max matching cost.

Run from inside the worktree:
    cd /tmp/wt_J01 && PYTHONPATH=/tmp/wt_J01 /venv/bin/python /tmp/ref_J01/demo.py
Prints PASS / exits 0 when every value agrees with a brute-force oracle,
prints FAIL / exits 1 otherwise.
"""
import itertools
import sys
import warnings

import numpy as np

import persim
from persim import bottleneck


def oracle(A, B):
    """Brute force over all pairings: every point goes to a point of the other
    diagram (L-infinity cost) or to the diagonal ((d - b) / 2)."""
    A = [tuple(p) for p in A]
    B = [tuple(p) for p in B]
    m, n = len(A), len(B)
    best = np.inf
    # choose which points of A are paired with which points of B (injective partial map)
    for k in range(min(m, n) + 1):
        for ia in itertools.combinations(range(m), k):
            for ib in itertools.permutations(range(n), k):
                worst = 0.0
                for i, j in zip(ia, ib):
                    worst = max(worst, max(abs(A[i][0] - B[j][0]), abs(A[i][1] - B[j][1])))
                for i in range(m):
                    if i not in ia:
                        worst = max(worst, (A[i][1] - A[i][0]) / 2)
                for j in range(n):
                    if j not in ib:
                        worst = max(worst, (B[j][1] - B[j][0]) / 2)
                best = min(best, worst)
    return best


def main():
    print("persim imported from", persim.__file__)
    warnings.simplefilter("ignore")
    failures = []

    # The smaller diagram comes first: its only point is cheap to send to the
    # diagonal, the second point of the larger diagram is not.
    fixed = [
        (np.array([[0.0, 0.2]]), np.array([[5.0, 5.1], [0.0, 10.0]])),
        (np.array([[1, 2]]), np.array([[1, 2], [0, 8]])),
        (np.array([[0.0, 1.0], [3.0, 3.5]]), np.array([[0.0, 1.0], [3.0, 3.5], [2.0, 9.0]])),
        # same diagrams the other way round, equal sizes, one empty
        (np.array([[5.0, 5.1], [0.0, 10.0]]), np.array([[0.0, 0.2]])),
        (np.array([[0.0, 1.0], [2.0, 9.0]]), np.array([[0.0, 1.5], [2.0, 8.0]])),
        (np.array([[1.0, 3.0]]), np.zeros((0, 2))),
    ]
    rng = np.random.default_rng(7)
    randoms = []
    for _ in range(120):
        m, n = rng.integers(1, 5, 2)
        b1 = rng.integers(0, 6, m).astype(float)
        b2 = rng.integers(0, 6, n).astype(float)
        A = np.c_[b1, b1 + rng.integers(0, 7, m)]
        B = np.c_[b2, b2 + rng.integers(0, 7, n)]
        randoms.append((A, B))

    for A, B in fixed + randoms:
        got = bottleneck(A, B)
        want = oracle(A, B)
        if got != want:
            failures.append((A.tolist(), B.tolist(), float(got), float(want)))

    for A, B, got, want in failures[:5]:
        print("dgm1 =", A, " dgm2 =", B, " bottleneck =", got, " true min-max =", want)
    if failures:
        print("%d of %d cases disagree with the brute-force optimum" % (len(failures), len(fixed + randoms)))
        print("FAIL")
        return 1
    print("all %d cases agree with the brute-force optimum" % len(fixed + randoms))
    print("PASS")
    return 0


if __name__ == "__main__":
    sys.exit(main())
