"""Demo for property C14 (heat-kernel distance is a pseudo-metric equal to the
kernel-induced norm, symmetric, and stable w.r.t. 1-Wasserstein).

Run from inside the worktree:
    cd /tmp/wt_M14 && PYTHONPATH=/tmp/wt_M14 /venv/bin/python /tmp/ref_M14/demo.py
Prints PASS / exits 0 if the property holds on the sample, FAIL / exits 1 otherwise.
"""
import math
import sys
import warnings

import numpy as np

warnings.simplefilter("ignore")
from persim import heat, wasserstein  # noqa: E402


def k_ref(F, G, sigma):
    """Multi-scale kernel of Reininghaus et al., written out pair by pair."""
    total = 0.0
    for (b1, d1) in F:
        for (b2, d2) in G:
            direct = (b1 - b2) ** 2 + (d1 - d2) ** 2
            mirror = (b1 - d2) ** 2 + (d1 - b2) ** 2
            total += math.exp(-direct / (8 * sigma)) - math.exp(-mirror / (8 * sigma))
    return total / (8 * math.pi * sigma)


def d_ref(F, G, sigma):
    return math.sqrt(max(k_ref(F, F, sigma) + k_ref(G, G, sigma) - 2 * k_ref(F, G, sigma), 0.0))


# G: three well separated classes.  F: the same three classes, moved a little,
# plus two short-lived (noise) classes listed first -- so F has MORE points
# than G and the diagrams are close in Wasserstein distance.
G = np.array([[0.2, 1.9], [0.5, 2.6], [1.1, 3.0]])
F = np.array([[0.30, 0.32], [0.90, 0.93],
              [0.21, 1.91], [0.5, 2.58], [1.12, 3.0]])
H = np.array([[0.0, 1.0], [0.4, 2.2]])

problems = []
for sigma in (0.4, 1.0, 0.05):
    dFG, dGF = float(heat(F, G, sigma)), float(heat(G, F, sigma))
    ref = d_ref(F.tolist(), G.tolist(), sigma)
    print("sigma=%-5g heat(F,G)=%.12g heat(G,F)=%.12g reference=%.12g" % (sigma, dFG, dGF, ref))
    if not (math.isfinite(dFG) and dFG >= 0):
        problems.append("sigma=%g: heat(F,G) not a finite non-negative number" % sigma)
    if abs(dFG - ref) > 1e-9 * max(1.0, ref):
        problems.append("sigma=%g: heat(F,G)=%.6g differs from sqrt(k(F,F)+k(G,G)-2k(F,G))=%.6g" % (sigma, dFG, ref))
    if abs(dGF - ref) > 1e-9 * max(1.0, ref):
        problems.append("sigma=%g: heat(G,F)=%.6g differs from the kernel formula %.6g" % (sigma, dGF, ref))
    if abs(dFG - dGF) > 1e-9 * max(1.0, ref):
        problems.append("sigma=%g: not symmetric: heat(F,G)=%.6g, heat(G,F)=%.6g" % (sigma, dFG, dGF))
    bound = wasserstein(F, G) / (4 * sigma * math.sqrt(math.pi))
    print("            stability bound W1/(4 sigma sqrt(pi)) = %.12g" % bound)
    if dFG > bound * (1 + 1e-9):
        problems.append("sigma=%g: heat(F,G)=%.6g exceeds W1/(4 sigma sqrt(pi))=%.6g" % (sigma, dFG, bound))
    # triangle inequality through a third diagram, in both argument orders
    for (A, B, C) in ((F, G, H), (G, H, F), (F, H, G)):
        if heat(A, C, sigma) > heat(A, B, sigma) + heat(B, C, sigma) + 1e-9:
            problems.append("sigma=%g: triangle inequality violated" % sigma)

if problems:
    for p in problems:
        print("  violation:", p)
    print("FAIL")
    sys.exit(1)
print("PASS")
sys.exit(0)
