"""Demo for property C10: landscape p-norms equal the integrals they name.

Run from inside the worktree so that the worktree's persim is imported:
    cd /tmp/wt_M10 && PYTHONPATH=/tmp/wt_M10 /venv/bin/python /tmp/ref_M10/demo.py

Prints PASS / exits 0 when every p-norm agrees with an independent evaluation of
(sum over depths of the integral of |f|^p) ** (1/p); prints FAIL / exits 1 otherwise.
"""
import sys
import warnings

import numpy as np

import persim
from persim import PersLandscapeApprox, PersLandscapeExact

warnings.simplefilter("ignore")
print("persim imported from", persim.__file__)


def reference_norm(functions, p):
    """Independent p-norm of piecewise linear functions given by their vertices.

    Every segment is split at its zero (if it has one in its interior); on a piece where the
    function keeps its sign, |f|^p is integrated by Gauss-Legendre quadrature with 64 nodes,
    which is exact to rounding for the polynomial / smooth integrands used here.
    """
    nodes, weights = np.polynomial.legendre.leggauss(64)
    total = 0.0
    for f in functions:
        f = np.asarray(f, dtype=float)
        for (x0, y0), (x1, y1) in zip(f[:-1], f[1:]):
            cuts = [x0, x1]
            if y0 * y1 < 0:
                cuts = [x0, x0 + (x1 - x0) * (0 - y0) / (y1 - y0), x1]
            for a, b in zip(cuts[:-1], cuts[1:]):
                xs = 0.5 * (b - a) * nodes + 0.5 * (a + b)
                ys = y0 + (y1 - y0) * (xs - x0) / (x1 - x0)
                total += 0.5 * (b - a) * np.sum(weights * np.abs(ys) ** p)
    return total ** (1.0 / p)


failures = []


def expect(label, got, want, rel=1e-9):
    ok = np.isfinite(got) and abs(got - want) <= rel * max(1.0, abs(want))
    print(f"  {'ok  ' if ok else 'BAD '} {label}: got {got:.12g}, expected {want:.12g}")
    if not ok:
        failures.append(label)


# 1. a hand-made zig-zag: up, DOWN through zero, back up.  Integral of |f| is 2, of f^2 is 4/3.
zigzag = PersLandscapeExact(critical_pairs=[[[0, 0], [1, 1], [3, -1], [4, 0]]])
expect("zig-zag, p=1", zigzag.p_norm(p=1), 2.0)
expect("zig-zag, p=2", zigzag.p_norm(p=2), (4.0 / 3.0) ** 0.5)
# its mirror image has the same norms (|−f| = |f|)
expect("mirrored zig-zag, p=1", (-zigzag).p_norm(p=1), 2.0)
expect("mirrored zig-zag, p=3", (-zigzag).p_norm(p=3), reference_norm((-zigzag).critical_pairs, 3))

# 2. differences of landscapes of two diagrams (what distances / permutation tests use)
A = [np.array([[0.0, 3.0], [1.0, 4.0], [2.5, 6.0]])]
B = [np.array([[0.5, 7.0], [3.0, 5.0], [4.1, 6.5]])]
PA, PB = PersLandscapeExact(dgms=A), PersLandscapeExact(dgms=B)
for p in (1, 2, 2.5, 7):
    D1, D2 = PA - PB, PB - PA
    expect(f"exact A-B, p={p}", D1.p_norm(p=p), reference_norm(D1.critical_pairs, p))
    expect(f"exact B-A, p={p}", D2.p_norm(p=p), reference_norm(D2.critical_pairs, p))
    expect(f"exact |A-B| = |B-A|, p={p}", D1.p_norm(p=p), D2.p_norm(p=p))

# 3. the same on a grid (step 1/8 and dyadic diagram coordinates, so that every grid value is
#    exact and flat stretches of the difference are exactly flat)
A8 = [np.array([[0.0, 3.0], [1.0, 4.0], [2.5, 6.0]])]
B8 = [np.array([[0.5, 7.0], [3.0, 5.0], [4.125, 6.5]])]
GA = PersLandscapeApprox(dgms=A8, start=0, stop=8, num_steps=65)
GB = PersLandscapeApprox(dgms=B8, start=0, stop=8, num_steps=65)
for p in (1, 2, 3.5):
    G = GA - GB
    expect(f"grid A-B, p={p}", G.p_norm(p=p), reference_norm(G.values_to_pairs(), p))
    expect(f"grid 2A-3B, p={p}", (2 * GA - 3 * GB).p_norm(p=p),
           reference_norm((2 * GA - 3 * GB).values_to_pairs(), p))

# 4. sanity that must hold everywhere: non-negative landscapes and P - P
expect("A, p=2", PA.p_norm(p=2), reference_norm(PA.critical_pairs, 2))
expect("A-A, p=2", (PA - PA).p_norm(p=2), 0.0)

if failures:
    print(f"FAIL ({len(failures)} norm(s) differ from the integral they name)")
    sys.exit(1)
print("PASS")
sys.exit(0)
