"""Property C13 demo: the Gaussian kernel of persim.images_kernels must be a valid, accurate bivariate normal CDF.

Run from inside the worktree:
    cd /tmp/wt_N13 && PYTHONPATH=/tmp/wt_N13 /venv/bin/python /tmp/ref_N13/demo.py
Prints PASS / exits 0 when the property holds on the sampled inputs, FAIL / exits 1 otherwise.
"""
import sys
import warnings

import numpy as np
from scipy import integrate
from scipy.special import ndtr

warnings.simplefilter("ignore")
from persim import images_kernels as ik  # noqa: E402


def reference_cdf(h, k, r):
    """Standard bivariate normal CDF by 1-D quadrature of phi(t) * Phi((k - r t) / sqrt(1 - r^2))."""
    s = np.sqrt((1.0 - r) * (1.0 + r))
    f = lambda t: np.exp(-0.5 * t * t) / np.sqrt(2.0 * np.pi) * ndtr((k - r * t) / s)
    lo = max(-40.0, h - 80.0)
    brk = [p for p in (k / r if r else 0.0, 0.0) if lo < p < h]
    val, _ = integrate.quad(f, lo, h, points=brk or None, epsabs=1e-13, epsrel=1e-13, limit=400)
    return val


def main():
    failures = []
    mu = np.array([0.7, -0.4])
    grid = np.linspace(-6.0, 6.0, 13)                       # standard units, includes far tails
    H, K = np.meshgrid(grid, grid, indexing="ij")
    for var_x, var_y in [(1.0, 1.0), (0.04, 9.0)]:
        for r in [0.0, 0.2, -0.29, 0.31, 0.5, -0.74, 0.76, 0.9, 0.924, 0.926, 0.95, -0.95, 0.99]:
            cov = r * np.sqrt(var_x * var_y)
            sigma = np.array([[var_x, cov], [cov, var_y]])
            x = mu[0] + H.ravel() * np.sqrt(var_x)
            y = mu[1] + K.ravel() * np.sqrt(var_y)
            vals = np.asarray(ik.gaussian(x, y, mu=mu, sigma=sigma), dtype=float).reshape(H.shape)
            tag = "var=(%g,%g) r=%g" % (var_x, var_y, r)

            if vals.min() < -1e-9 or vals.max() > 1.0 + 1e-9:
                failures.append("%s: values leave [0,1]: min=%.3e max-1=%.3e" % (tag, vals.min(), vals.max() - 1))
            if np.diff(vals, axis=0).min() < -1e-9 or np.diff(vals, axis=1).min() < -1e-9:
                failures.append("%s: CDF decreases along an axis" % tag)
            rect = vals[1:, 1:] - vals[:-1, 1:] - vals[1:, :-1] + vals[:-1, :-1]
            if rect.min() < -1e-9:
                failures.append("%s: negative rectangle mass %.3e" % (tag, rect.min()))
            if r == 0.0:
                prod = ndtr(H) * ndtr(K)
                if np.abs(vals - prod).max() > 1e-9:
                    failures.append("%s: not the product of the marginals" % tag)
            else:
                ref = np.array([reference_cdf(h, k, r) for h, k in zip(H.ravel(), K.ravel())]).reshape(H.shape)
                err = np.abs(vals - ref)
                if err.max() > 1e-7:
                    i = np.unravel_index(err.argmax(), err.shape)
                    failures.append("%s: off the reference CDF by %.3e at standardised point (%g, %g)"
                                    % (tag, err.max(), H[i], K[i]))

    # uniform kernel: CDF of the uniform law on the box centred at mu
    xs = np.array([-3.0, -1.5, -0.25, 0.0, 0.5, 1.5, 4.0]); ys = np.array([-2.0, -0.5, 0.1, 0.0, 0.25, 0.5, 3.0])
    got = ik.uniform(xs, ys, mu=(0.0, 0.0), width=3, height=1)
    want = np.clip((xs + 1.5) / 3.0, 0, 1) * np.clip((ys + 0.5) / 1.0, 0, 1)
    if np.abs(got - want).max() > 1e-12:
        failures.append("uniform kernel is not the box CDF")

    if failures:
        print("FAIL")
        for f in failures[:12]:
            print("  -", f)
        return 1
    print("PASS")
    return 0


if __name__ == "__main__":
    sys.exit(main())
