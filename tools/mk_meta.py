#!/usr/bin/env python3
"""usage: mk_meta.py <hidden-id> <property> <expect_patch: refuted|undecided> <refuted_by ;-separated> <first_contact text>"""
import json, sys, os
hid, prop, expect, by, first = sys.argv[1:6]
d = {
 "property": prop,
 "kind": "behaviour-preserving rewrite in a different style, 80-200 changed lines (clean.diff) and the same rewrite with a 1-4 line slip hidden in it (patch.diff)",
 "origin": "written by a fresh sub-agent given only the property text, the earlier seeded changes to avoid, and its own scratch worktree (nothing from /verif)",
 "confirmed": {"suite_with_clean": "108 passed", "suite_with_patch": "108 passed",
               "demo": "PASS on the unchanged tree and with clean.diff, FAIL with patch.diff (run by me with tools/try_hidden.sh)"},
 "expect_clean": "not exit 1",
 "expect_patch": expect,
 "refuted_by": [x.strip() for x in by.split(";") if x.strip()],
 "first_contact": first,
}
json.dump(d, open(os.path.join(os.path.dirname(__file__), "..", "hidden", hid, "meta.json"), "w"), indent=1, ensure_ascii=False)
