#!/usr/bin/env python3
"""usage: mk_round.py <LETTER> <outdir>  — writes one prompt per property for a round of hidden changes (PROPERTY.txt goes to
/tmp/ref_<LETTER><nn>/).  The prompt gives the sub-agent the property text, the lines earlier slips introduced (to stay away
from) and its own scratch worktree; nothing from /verif."""
import glob
import json
import os
import re
import sys

letter, outdir = sys.argv[1], sys.argv[2]
V = "/verif"
props = [json.loads(l) for l in open(f"{V}/properties.jsonl")]


def added(path):
    return [l[1:].strip() for l in open(path, errors="replace") if l.startswith("+") and not l.startswith("+++") and l[1:].strip()]


def slip_lines(pid):
    out = []
    for d in sorted(glob.glob(f"{V}/hidden/*/")):
        mp = d + "meta.json"
        if not os.path.exists(mp) or json.load(open(mp)).get("property") != pid:
            continue
        c, p = d + "clean.diff", d + "patch.diff"
        if os.path.exists(c) and os.path.exists(p):
            ca = set(added(c))
            new = [l for l in added(p) if l not in ca][:3]
            if new:
                out.append(f"[{os.path.basename(d.rstrip('/'))}] " + " / ".join(x[:110] for x in new))
    for d in sorted(glob.glob(f"{V}/seeded/{pid}*/")):
        p = d + "patch.diff"
        if os.path.exists(p):
            new = [l for l in added(p) if not l.startswith("#")][:2]
            out.append(f"[{os.path.basename(d.rstrip('/'))}] " + " / ".join(x[:110] for x in new))
    return out


KINDS = [
    "a PERFORMANCE change: make the anchored code faster or lighter on memory the way a maintainer would (vectorise a loop, hoist a computation out of a loop, cache / memoise something, pre-allocate, short-circuit an easy case, process in blocks, avoid a copy)",
    "a ROBUSTNESS change: input validation and normalisation at the top of the anchored functions (np.asarray / atleast_2d, shape and dtype checks, friendlier error messages, explicit handling of empty input), without changing any result for inputs that worked before",
    "an API-HARDENING change: keyword-only or better-named private parameters, type hints, a small private helper extracted and reused by two call sites, constants named at module level, docstrings fixed - no result changes",
    "a DEDUPLICATION change: two near-identical blocks or sibling functions of the anchored code folded into one shared private helper parameterised by what differs",
    "a NUMERICAL-HYGIENE change: reorder / regroup arithmetic for clarity or stability (np.hypot, np.subtract.outer, math.fsum, explicit float64 conversion, avoiding a needless sqrt or division) without changing results beyond the last bits",
]

KINDS_B = [
    "a FEATURE addition: one new optional keyword parameter of a public function / method of the anchored code, with a default that preserves today's behaviour exactly (for example `weights=None`, `return_indices=False`, `copy=True`, `dtype=None`, `tol=0.0`, `sort=True`, `out=None`, `axis labels`), threaded through to the private helpers that need it, documented in the docstring",
    "a BUG-FIX attempt for a corner case the code handles clumsily today (empty or one-point input, NaN or duplicate points, a collection with one element, a zero-length bar, an already-computed / not-yet-computed object, a negative or zero parameter): explicit handling added at the right place, so that every input that worked before gives exactly the same result and the corner case gets a clean result or a clear exception",
    "a PORTING change to current library APIs: deprecated or discouraged numpy / scipy / sklearn / matplotlib calls replaced by their modern equivalents (np.product -> np.prod, np.in1d -> np.isin, sklearn pairwise_distances -> scipy cdist or plain broadcasting, np.matrix idioms, `np.float`-style aliases, implicit array truthiness, matplotlib pyplot state -> explicit Axes methods, list(np...) -> .tolist()), results unchanged",
    "a DIAGNOSTICS change: a `verbose` / logging path, warnings for suspicious input, internal sanity assertions of invariants the code relies on, a progress callback or timing hook - all silent and free of side effects by default, results unchanged",
    "a READABILITY change: long functions split into two or three well-named steps, magic column indices replaced by named constants or tuple unpacking, variables renamed to say what they hold, independent statements reordered into a clearer sequence, nested conditionals flattened with early returns - results unchanged",
]
KINDS_C = [
    "a MEMORY / RESOURCE change: lower the peak memory and the number of copies the anchored code makes, the way a maintainer would after profiling (in-place arithmetic on temporaries the function owns, views instead of copies where nothing is written, `out=` arguments, generators instead of intermediate lists, `del` of large temporaries, one reusable scratch array inside a loop) - results unchanged",
    "a GENERALISATION: the anchored public functions accept one more form of input that users plausibly pass today and get an obscure error for (a generator / iterator of diagrams, a tuple instead of a list, an array with extra columns, a 1-d or 0-row degenerate array, `None` entries to be skipped, numpy scalars for integer options), normalised on entry so that every input that worked before gives exactly the same result",
    "an API-EVOLUTION change: a parameter or an option value gets a better name with a backwards-compatible alias (old spelling still accepted, a DeprecationWarning, the new spelling preferred when both are given), or a positional parameter becomes keyword-preferred with a shim - every existing call keeps its result",
    "a TESTABILITY refactor (dependency injection): something hard-wired in the anchored code - the assignment / matching solver, the random generator, the clock, the plotting axes factory, the kernel or weight function - becomes an optional parameter that defaults to today's choice, and the pure numerical core is separated from its I/O shell; results with the defaults unchanged",
    "a CONSISTENCY change between sibling functions / methods of the anchored code: the same validation, the same empty-input behaviour, the same container type for results, the same warning text, obtained by moving the shared behaviour to one place - where the siblings genuinely differ today each keeps its own behaviour (no result changes)",
]
KINDS_D = [
    "a MODULE-EXTRACTION change: private helpers and constants of the anchored code that a sibling module duplicates (input conversion, the finite-death filter, rotation / projection constants, grid construction, validation) move into a NEW private module of the package (for example `persim/_shared.py` or `persim/landscapes/_grid.py`) and are imported from there by both; public names, signatures and behaviour unchanged, no import cycle",
    "a CLASS-REFACTOR: a long anchored function is reorganised around a small private state object (a class or dataclass with two or three methods, or a NamedTuple for its intermediate results), or a needlessly stateful private class is flattened back into functions - public API and results unchanged",
    "a DECORATOR / CONTEXT-MANAGER change: repeated boilerplate of the anchored public functions (argument normalisation, deprecation warnings, `np.errstate`, `warnings.catch_warnings`, timing, restoring a global setting) is factored into a private decorator or context manager applied to them with `functools.wraps` - results unchanged",
    "an ERROR-HANDLING change: explicit exceptions with clear messages instead of obscure failures deep inside numpy for malformed input (wrong shape, NaN, negative parameters), try / except / finally tidied, early returns for trivial cases - every input that worked before gives exactly the same result",
    "a LOOP-RESTRUCTURING change: index arithmetic and loops of the anchored code rewritten in the idiom a reviewer would ask for (`while` with a manual counter -> `for ... in range`, `range(len(x))` -> `enumerate` / `zip`, slices instead of index lists, `reversed`, `itertools.pairwise`-style neighbours, a sentinel instead of a flag) - results unchanged",
]
KINDS_E = [
    "a LAZY-COMPUTATION / CACHING-OF-DERIVED-STATE change on the anchored classes and functions: an expensive derived quantity (a grid, a mesh, a cost matrix, sorted copies, a landscape's critical pairs, a kernel's normalisation) is computed on demand and kept (a private `_cache` attribute or `functools.cached_property`, invalidated by the setters / by `fit` / when the inputs differ), or - where the code is already lazy - the lazy machinery is tidied (one `_ensure_computed()` helper, a `computed` property); for function-only modules a small per-call record of intermediate results that the steps share - results unchanged",
    "an OBJECT-PROTOCOL change: the anchored classes get (or the functions' intermediate results become objects with) `__repr__`, `__eq__`, `__copy__` / `__deepcopy__` / `copy()`, `get_params` / `set_params`, `__getstate__` / `__setstate__`, `to_dict` / `from_dict`, `__len__` / `__iter__`, and existing code that copied / compared / rebuilt such objects by hand now uses them - results unchanged",
    "a BATCH / COLLECTION change: a public function of the anchored code that works on one item (a pair of diagrams, one diagram, one landscape, one graph) gets its collection handling reorganised - a private `_each` / `_pairwise` driver, `map` / a generator pipeline, an optional `n_jobs`, chunks of a fixed size, results gathered into a pre-sized array - with results identical, in the same order, for single items and collections alike",
    "a CONFIGURATION change: numbers and choices hard-wired in the anchored code (tolerances, default resolutions / sizes, dtypes, the value standing for infinity, colours and marker sizes) are gathered in one private settings object or module-level table and handed to the code that needs them (explicitly or through a private accessor) - defaults and results unchanged",
    "an IMMUTABILITY / DEFENSIVE-COPY change: what the anchored public functions return, and what the objects keep, is protected against accidental modification - returned arrays copied or marked read-only, inputs frozen with `setflags(write=False)` while they are used and restored afterwards, tuples instead of lists for constants, private attributes behind read-only properties - results unchanged for callers that do not write into what they get",
]
if letter >= "Q":
    KINDS = KINDS_B
if letter >= "T":
    KINDS = KINDS_C
if letter >= "U":
    KINDS = KINDS_D
if letter >= "V":
    KINDS = KINDS_E

for k, pr in enumerate(props):
    pid = pr["id"]
    if pid == "C05":
        continue
    hid = f"{letter}{pid[1:]}"
    os.makedirs(f"/tmp/ref_{hid}", exist_ok=True)
    text = pr.get("title", "") + "\n\n" + (pr.get("statement") or pr.get("description") or "")
    extra = {kk: vv for kk, vv in pr.items() if kk not in ("id", "title", "statement", "description")}
    with open(f"/tmp/ref_{hid}/PROPERTY.txt", "w") as fh:
        fh.write(f"{pid}: {text}\n\n" + json.dumps(extra, indent=1, ensure_ascii=False) + "\n")
    kind = KINDS[(k + ord(letter)) % len(KINDS)]
    earlier = "\n".join("    " + x for x in slip_lines(pid)) or "    (none)"
    invites = ("(a cache keyed by too little, a hoisted value that depended on the loop after all, a validation that rewrites the caller's array or silently changes dtype, a shared helper that ignores the one thing that differed, a regrouped expression that lost a term or a sign for one branch, a short-circuit taken in a case where it is not valid, a block boundary off by one, a pre-allocated buffer reused across calls)"
               if letter < "Q" else
               "(an in-place operation that reaches the caller's array or the object's stored state through a view, a generator consumed twice or measured with len(), a view returned where a copy was promised, the old alias silently winning over the new name or a sentinel compared with `==` against an array, an injected default created once at import time and shared by all calls, a local generator or clock replacing the global one, a validation moved below the first use of what it validates, the shared helper applying one sibling's convention to the other, a scratch array that still holds the previous iteration's tail)"
               if "T" <= letter < "U" else
               "(a helper that moved and lost a line or a default on the way, the shared helper carrying the convention of the module it came from into the other one, state kept on the object that should have been per call, a field of the state object updated in one method and read stale in another, a decorator that evaluates something once at decoration time or swallows / reorders an argument or drops the return value on one path, a context manager that does not restore on the exception path, an early return taken for an input that is not trivial, a validation that rejects or rewrites valid input, a range / slice end off by one after the rewrite, neighbours paired with the wrong offset, a loop variable reused after the loop)"
               if "U" <= letter < "V" else
               "(a cache that is not invalidated by one of the things it depends on, or is invalidated too late / too early; a cached value shared between instances; a read of derived state before it is (re)computed; `copy()` / `__deepcopy__` / `set_params` / `__setstate__` that forgets one attribute, shares a mutable one or resets a fitted one; `__eq__` that compares too little; results of a batch gathered in the wrong order, truncated by `zip`, or written into a buffer of the wrong dtype / size; the single-item path and the collection path disagreeing; a setting read once at import or definition time, a setting that one call path still hard-wires; an input left frozen / modified on an exception path, a read-only view handed to code that writes, a returned view that aliases internal state)"
               if letter >= "V" else
               "(the new parameter not passed on along one of two call paths or shadowing an existing name, a default evaluated once and shared, the corner-case branch taken for inputs that are not the corner case, a 'modern equivalent' whose defaults or argument order differ from the old call, an assertion or log statement that consumes an iterator / mutates / reorders what it inspects, a step extracted into a helper that returns before the last statement of the old block, a renamed variable that still exists under its old name with a stale value, two 'independent' statements that were not independent)")
    prompt = f"""You are helping test verification tooling for the Python library scikit-tda/persim (persistence-diagram tools).
You have your OWN scratch git worktree of the repository at /tmp/wt_{hid} (work ONLY there and in /tmp/ref_{hid}; never touch /repo or /verif, do not read anything under /verif, and do NOT use `git stash` - the stash is shared between worktrees; to undo use `git -C /tmp/wt_{hid} checkout -- .` or `git apply -R`).

The semantic property of interest is in /tmp/ref_{hid}/PROPERTY.txt - read it first (it names the code the property is anchored in).

Your task has TWO parts that end up in ONE patch, the way a real regression arrives in a maintenance commit:
  PART 1 - {kind}. Size: 25-90 changed lines in the anchored code (the functions / methods the property names, and private helpers in the same module). Keep every public name, signature, default and return type. On its own PART 1 must not change behaviour: check it with a differential run of a few thousand random inputs (including empty, tied, negative, integer-typed, inf-containing inputs, non-default options, repeated calls) against a saved copy of the original module, comparing values, dtypes and exception types.
  PART 2 - hidden inside that change, ONE small slip (1-4 lines) that BREAKS the property for some inputs / configuration / call sequence, while the module still imports and the ENTIRE existing test suite still passes. It must need something specific to manifest and it must look like an honest mistake of exactly the kind such a change invites {invites}.
Earlier seeded changes for this property exist; yours must be different from them:
{earlier}
  (these are the lines the earlier slips introduced; avoid both their place and their kind of mistake, and prefer a part of the anchored code - another function, another branch, another option - that few of them touched)

How to run things (persim is installed in /venv as an editable install pointing at /repo, so you MUST run from inside your worktree so that your copy is imported):
  cd /tmp/wt_{hid} && PYTHONPATH=/tmp/wt_{hid} /venv/bin/python -c "import persim; print(persim.__file__)"     # must print a path under /tmp/wt_{hid}
  cd /tmp/wt_{hid} && PYTHONPATH=/tmp/wt_{hid} /venv/bin/python -m pytest -q -p no:cacheprovider --timeout=900    # full suite: must stay at 108 passed
There is no network. Use matplotlib with the Agg backend in any demo that plots.

Deliverables (write them to /tmp/ref_{hid}/):
  1. clean.diff  - PART 1 alone (`git diff` with only the maintenance change applied), behaviour-preserving.
  2. patch.diff  - PART 1 + PART 2 together (`git diff` of the final state). patch.diff must differ from clean.diff only by the slip.
  3. demo.py     - a small standalone program that exits 0 and prints PASS on the UNCHANGED code AND on the tree with only clean.diff applied, and exits 1 and prints FAIL with patch.diff applied. Verify all three.
  4. notes.md    - what the change does, where exactly the slip is (file, function, the lines), why it breaks the property, what input/sequence is needed, and the commands you ran with outcomes (suite with clean.diff: 108 passed; suite with patch.diff: 108 passed; demo three ways).
Leave patch.diff applied in the worktree when you finish. In your final answer summarise the change and the slip in 4-5 sentences and confirm the verification results.
"""
    with open(os.path.join(outdir, f"prompt_{hid}.txt"), "w") as fh:
        fh.write(prompt)
    print(hid, pid, kind.split(":")[0], len(slip_lines(pid)))
