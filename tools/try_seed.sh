#!/bin/bash
# usage: try_seed.sh C19 [--no-suite]  — verify a sub-agent's seeded change and run every check against it
ID=$1
W=/tmp/wt_$ID; S=/tmp/seed_$ID
[ -f $S/patch.diff ] || { echo "no patch for $ID"; exit 1; }
echo "== $ID: patch touches: $(grep '^+++ ' $S/patch.diff | tr '\n' ' ')"
cd $W
git checkout -q -- . ; git apply $S/patch.diff || { echo "patch does not apply to its worktree"; exit 1; }
if [ "$2" != "--no-suite" ]; then
  echo -n "suite with change: "; PYTHONPATH=$W /venv/bin/python -m pytest -q -p no:cacheprovider --timeout=900 2>&1 | tail -1
fi
echo -n "demo with change: "; PYTHONPATH=$W MPLBACKEND=Agg /venv/bin/python $S/demo.py >/tmp/demo_$ID.out 2>&1; echo "exit=$? $(grep -E 'PASS|FAIL' /tmp/demo_$ID.out | tail -1)"
git apply -R $S/patch.diff
echo -n "demo without change: "; PYTHONPATH=$W MPLBACKEND=Agg /venv/bin/python $S/demo.py >/tmp/demo_$ID.out 2>&1; echo "exit=$? $(grep -E 'PASS|FAIL' /tmp/demo_$ID.out | tail -1)"
cd /verif
git -C /repo apply $S/patch.diff || { echo "patch does not apply to /repo"; exit 1; }
for c in C01 C02 C03 C04 C06 C07 C08 C09 C10 C11 C12 C13 C14 C15 C16 C17 C18 C19 C20; do
  /venv/bin/python -m pst.check $c --dry > /tmp/seedrun_$c.txt 2>&1; e=$?
  if [ $e -ne 0 ]; then echo "  $c exit=$e: $(grep -E ' rule=|ANALYSIS-ERROR' /tmp/seedrun_$c.txt | head -2 | cut -c1-260)"; fi
done
git -C /repo checkout -- .
echo "== /repo restored: $(git -C /repo status --short | wc -l) changed files"
