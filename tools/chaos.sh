#!/bin/bash
# usage: chaos.sh <prim> [checks...] — pretend one primitive is not modelled; a check that still exits 0 AND reaches that
# primitive has a verdict that does not look at the exactness of its run (list of ext-call targets from a normal run)
P=$1; shift
CH=${@:-C01 C02 C03 C04 C06 C07 C08 C09 C10 C11 C12 C13 C14 C15 C16 C17 C18 C19 C20}
cd /verif
for c in $CH; do
  PST_CHAOS=$P /venv/bin/python -m pst.check $c --dry > /tmp/chaos_$c.txt 2>&1; e=$?
  n=$(grep -c "CHAOS-HIT" /tmp/chaos_$c.txt)
  echo "$c exit=$e hits=$n $(tail -1 /tmp/chaos_$c.txt | cut -c1-110)"
done
