#!/bin/bash
# usage: allchecks.sh <repo>  — prints non-zero exits
R=${1:-/repo}
printf "%s\n" C01 C02 C03 C04 C06 C07 C08 C09 C10 C11 C12 C13 C14 C15 C16 C17 C18 C19 C20 | xargs -P 16 -I{} sh -c \
  "cd /verif; /venv/bin/python -m pst.check {} --repo $R --dry > /tmp/all_{}.txt 2>&1; echo \$? > /tmp/all_{}.rc"
for c in C01 C02 C03 C04 C06 C07 C08 C09 C10 C11 C12 C13 C14 C15 C16 C17 C18 C19 C20; do
  e=$(cat /tmp/all_$c.rc); if [ "$e" != "0" ]; then echo "$c exit=$e: $(grep -E ' rule=|ANALYSIS-ERROR' /tmp/all_$c.txt | head -3 | cut -c1-260)"; fi
done
echo done
