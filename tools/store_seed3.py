#!/usr/bin/env python3
"""usage: store_seed3.py <ID>  — after tools/try_seed3.sh <ID> > /tmp/try3_<ID>.txt: keep the change as seeded/<ID>c/ when the
suite passed with it and the demo FAILs with / PASSes without it; meta.json is filled from what the run printed (which checks
exit 1 with which rule; `expect: missed` when the check of the property itself did not refute it)."""
import json, os, re, shutil, sys
pid = sys.argv[1]
out = open(f"/tmp/try3_{pid}.txt").read()
ok = "108 passed" in out and re.search(r"demo with change: exit=1 .*FAIL", out) and re.search(r"demo without change: exit=0 .*PASS", out)
if not ok:
    print(pid, "NOT CONFIRMED:", [l for l in out.splitlines() if l.startswith(("suite", "demo"))])
    sys.exit(1)
det, undec = [], []
for m in re.finditer(r"^  (C\d\d) exit=(\d+): (.*)$", out, re.M):
    c, e, rest = m.group(1), m.group(2), m.group(3)
    r = re.search(r"rule=([A-Z-]+[A-Z0-9]*)", rest)
    if e == "1":
        det.append(f"{c} {r.group(1) if r else '?'}")
    else:
        r2 = re.search(r"property=C\d\d ([A-Z-]+[A-Z0-9]*)", rest)
        undec.append(f"{c} {r2.group(1) if r2 else '?'} (exit {e})")
own = any(d.startswith(pid + " ") for d in det)
notes = open(f"/tmp/seed3_{pid}/notes.md", errors="replace").read()
d = f"/verif/seeded/{pid}c"
os.makedirs(d, exist_ok=True)
for f in ("patch.diff", "demo.py", "notes.md"):
    shutil.copy(f"/tmp/seed3_{pid}/{f}", d)
meta = {"property": pid, "round": 3, "change": " ".join(notes.split())[:600],
        "origin": "written by a fresh sub-agent given only the property text, the lines earlier seeded changes introduced (to avoid), and its own scratch worktree of /repo (nothing from /verif)",
        "confirmed": {"suite_with_change": "108 passed (run by me in the scratch worktree with the patch applied)",
                      "demo_with_change": "exit 1, FAIL", "demo_without_change": "exit 0, PASS"},
        "what_i_ran": ["tools/try_seed3.sh <ID>: git checkout -- .; git apply patch.diff; full suite; demo.py with and without the patch (git apply -R); every check with --repo <worktree> --dry"],
        "detected_by": det, "no_verdict": undec,
        "first_contact": "caught" if own else ("caught by another check only" if det else ("no verdict (exit 2)" if undec else "missed, silent everywhere"))}
if not own:
    meta["expect"] = "missed"
json.dump(meta, open(d + "/meta.json", "w"), indent=1, ensure_ascii=False)
print(pid, meta["first_contact"], det, undec)
