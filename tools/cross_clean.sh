#!/bin/bash
# usage: cross_clean.sh <CHECK> <file-pattern>  — runs CHECK on every stored clean.diff (hidden/, seeded refactors) touching the file;
# prints anything that exits 1 (a false alarm outside the item's own property)
C=$1; PAT=$2
T=$(mktemp -d /tmp/cc.XXXX)
for d in /verif/hidden/*/; do
  h=$(basename $d); f=$d/clean.diff
  [ -f $f ] || continue
  grep -q "^+++ b/$PAT" $f || continue
  echo $h
done | xargs -P 12 -I{} sh -c "rm -rf $T/{}; mkdir -p $T/{}; cp -r /repo/persim $T/{}/; cd $T/{} && patch -s -p1 < /verif/hidden/{}/clean.diff >/dev/null 2>&1; cd /verif; /venv/bin/python -m pst.check $C --repo $T/{} --dry > $T/{}.out 2>&1; echo \"{} exit=\$? \$(grep -E ' rule=' $T/{}.out | head -2 | cut -c1-260)\"" | sort | tee $T/all.txt | grep -v "exit=[02]"; echo "items: $(wc -l < $T/all.txt) (exit0: $(grep -c "exit=0" $T/all.txt), exit2: $(grep -c "exit=2" $T/all.txt))"
rm -rf $T
echo cross-clean done
