#!/bin/bash
# usage: rebase_diffs.sh <old-commit> [diff files...]
# Stored diffs that applied to <old-commit> of /repo but not to its HEAD (a "fix:" commit touched their context) are
# carried over: apply at <old-commit> in a scratch worktree, cherry-pick the later commits, write the diff against HEAD back.
# Conflicts are listed (CONFLICT <file>) and left for a manual rebase.
OLD=$1; shift
W=/tmp/rebase_wt
for f in "$@"; do
  git -C /repo worktree remove --force $W >/dev/null 2>&1; rm -rf $W
  git -C /repo worktree add -q --detach $W $OLD || exit 2
  if ! (cd $W && patch -s -p1 < /verif/$f >/dev/null 2>&1); then echo "NOAPPLY-AT-OLD $f"; continue; fi
  (cd $W && find . -name '*.orig' -delete; git add -A >/dev/null; git -c user.name=x -c user.email=x@x commit -qm stored >/dev/null)
  if (cd $W && git -c user.name=x -c user.email=x@x cherry-pick $OLD..main >/dev/null 2>&1); then
    (cd $W && git diff main HEAD) > /tmp/rebased.diff
    cp /tmp/rebased.diff /verif/$f; echo "REBASED $f"
  else
    echo "CONFLICT $f"; (cd $W && git diff --name-only --diff-filter=U | head -3; git cherry-pick --abort >/dev/null 2>&1)
  fi
done
git -C /repo worktree remove --force $W >/dev/null 2>&1; git -C /repo worktree prune
