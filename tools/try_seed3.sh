#!/bin/bash
# usage: try_seed2.sh C19 [--no-suite]  — verify a round-2 seeded change (/tmp/wt3_<ID>, /tmp/seed3_<ID>) and run every
# check against the changed worktree (/repo is not touched)
ID=$1
W=/tmp/wt3_$ID; S=/tmp/seed3_$ID
[ -f $S/patch.diff ] || { echo "no patch for $ID"; exit 1; }
echo "== $ID: patch touches: $(grep '^+++ ' $S/patch.diff | tr '\n' ' ') ($(grep -c '^[+-][^+-]' $S/patch.diff) changed lines)"
cd $W
git checkout -q -- . ; git clean -fdq persim; git apply $S/patch.diff || { echo "patch does not apply to its worktree"; exit 1; }
if [ "$2" != "--no-suite" ]; then
  echo -n "suite with change: "; PYTHONPATH=$W /venv/bin/python -m pytest -q -p no:cacheprovider --timeout=900 2>&1 | tail -1
fi
echo -n "demo with change: "; (cd $W; PYTHONPATH=$W MPLBACKEND=Agg timeout 600 /venv/bin/python $S/demo.py >/tmp/demo3_$ID.out 2>&1; echo "exit=$? $(grep -E 'PASS|FAIL' /tmp/demo3_$ID.out | tail -1)")
git apply -R $S/patch.diff
echo -n "demo without change: "; (cd $W; PYTHONPATH=$W MPLBACKEND=Agg timeout 600 /venv/bin/python $S/demo.py >/tmp/demo3_$ID.out 2>&1; echo "exit=$? $(grep -E 'PASS|FAIL' /tmp/demo3_$ID.out | tail -1)")
git apply $S/patch.diff
cd /verif
printf "%s\n" C01 C02 C03 C04 C06 C07 C08 C09 C10 C11 C12 C13 C14 C15 C16 C17 C18 C19 C20 | xargs -P 16 -I{} sh -c \
  "/venv/bin/python -m pst.check {} --repo $W --dry > /tmp/seed3run_${ID}_{}.txt 2>&1; echo \$? > /tmp/seed3run_${ID}_{}.rc"
for c in C01 C02 C03 C04 C06 C07 C08 C09 C10 C11 C12 C13 C14 C15 C16 C17 C18 C19 C20; do
  e=$(cat /tmp/seed3run_${ID}_$c.rc)
  if [ "$e" != "0" ]; then echo "  $c exit=$e: $(grep -E ' rule=|ANALYSIS-ERROR' /tmp/seed3run_${ID}_$c.txt | head -2 | cut -c1-260)"; fi
done
rm -f /tmp/seed3run_${ID}_*.rc
