#!/bin/bash
# usage: store_hidden.sh <ID>  — copy the artefacts a sub-agent left in /tmp/ref_<ID> into /verif/hidden/<ID>/
ID=$1; S=/tmp/ref_$ID; D=/verif/hidden/$ID
for f in clean.diff patch.diff demo.py notes.md; do [ -f $S/$f ] || { echo "missing $S/$f"; exit 1; }; done
mkdir -p $D; cp $S/clean.diff $S/patch.diff $S/demo.py $S/notes.md $D/
echo "stored $ID: $(grep -c '^[+-][^+-]' $D/clean.diff) / $(grep -c '^[+-][^+-]' $D/patch.diff) changed lines"
