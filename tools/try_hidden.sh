#!/bin/bash
# usage: try_hidden.sh H01 [--no-suite] — a clean-up (clean.diff) and the same clean-up with a hidden slip (patch.diff)
ID=$1
W=/tmp/wt_$ID; S=/tmp/ref_$ID
[ -f $S/patch.diff ] && [ -f $S/clean.diff ] || { echo "no patch/clean for $ID"; exit 1; }
for which in clean patch; do
  cd $W; git reset -q; git checkout -q -- .; git clean -fdq persim; git apply $S/$which.diff 2>/dev/null || patch -p1 -s -i $S/$which.diff >/dev/null 2>&1 || { echo "$which.diff does not apply"; continue; }
  echo "== $ID $which.diff ($(grep -c '^[+-][^+-]' $S/$which.diff) lines; $(grep '^+++ ' $S/$which.diff | sed 's/+++ b\///' | tr '\n' ' '))"
  if [ "$2" != "--no-suite" ]; then
    echo -n "   suite: "; PYTHONPATH=$W /venv/bin/python -m pytest -q -p no:cacheprovider --timeout=900 2>&1 | tail -1
  fi
  echo -n "   demo: "; (cd $W; PYTHONPATH=$W MPLBACKEND=Agg timeout 600 /venv/bin/python $S/demo.py > /tmp/demo_$ID.out 2>&1; echo "exit=$? $(grep -E 'PASS|FAIL' /tmp/demo_$ID.out | tail -1)")
  cd /verif
  printf "%s\n" C01 C02 C03 C04 C06 C07 C08 C09 C10 C11 C12 C13 C14 C15 C16 C17 C18 C19 C20 | xargs -P 16 -I{} sh -c \
    "/venv/bin/python -m pst.check {} --repo $W --dry > /tmp/hidrun_${ID}_{}.txt 2>&1; echo \$? > /tmp/hidrun_${ID}_{}.rc"
  for c in C01 C02 C03 C04 C06 C07 C08 C09 C10 C11 C12 C13 C14 C15 C16 C17 C18 C19 C20; do
    e=$(cat /tmp/hidrun_${ID}_$c.rc)
    if [ "$e" != "0" ]; then echo "   $c exit=$e: $(grep -E ' rule=|ANALYSIS-ERROR' /tmp/hidrun_${ID}_$c.txt | head -2 | cut -c1-230)"; fi
  done
done
rm -f /tmp/hidrun_${ID}_*
