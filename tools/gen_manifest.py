#!/venv/bin/python
"""Regenerate /verif/MANIFEST.json from the table below (one place to keep claims honest)."""
import json
import os
import sys

HERE = os.path.dirname(os.path.dirname(os.path.abspath(__file__)))

CLAUSE = ("Clause-level static decision: the named structural/algebraic parts, each a necessary condition of the "
          "property, are decided for every input at once from the current sources; the behaviour as a whole "
          "(numeric results) is not decided. ")

# id -> (implemented?, technique, level text, level note, design ref)
CHECKS = {
    "C19": (True,
            "inter-procedural ownership/effect (may-alias, may-write) analysis + who-may-call over the call graph",
            CLAUSE + "Decides: no public entry point writes through an argument (PU-ARGS), no method mutates an object "
            "reachable from self in place (PU-CAPT), no module/class/default-argument state is written (PU-STATE), RNG and "
            "pyplot who-may-call (PU-RNG, PU-PLT), integer-closed stores into caller-typed copies (PU-DTYPE). "
            "Declines: bit-identical repeatability of floating-point results.",
            "Trusted: the copy/view/mutator table for external callables in pst/core/own.py; user-supplied weight/kernel "
            "callables are pure by contract; path-insensitive may-analysis (a write behind an infeasible branch would be "
            "reported).",
            "DESIGN.md §3.1, §3.2, §4 C19"),
}

NOT_APPLICABLE = {
    "C05": "soundness of the mGH lower/upper bounds is a theorem about computed values for every graph pair and RNG "
           "draw; no ownership, ordering, wiring or algebraic-type argument implies it (DESIGN.md §6); nearby "
           "structural facts are claimed under C17/C19",
}

ALL = ["C%02d" % i for i in range(1, 21)]


def main():
    checks = []
    na = []
    for pid in ALL:
        if pid in CHECKS and CHECKS[pid][0]:
            _, tech, text, note, ref = CHECKS[pid]
            checks.append({
                "property_id": pid,
                "quick_cmd": f"/venv/bin/python -m pst.check {pid} --tier quick",
                "thorough_cmd": f"/venv/bin/python -m pst.check {pid} --tier thorough",
                "evidence_file": f"/verif/evidence/{pid}.json",
                "replay_cmd_template": f"/venv/bin/python -m pst.check {pid} --explain {{path}}",
                "engine": "pst",
                "level_claimed": {"category": "other", "text": text, "design_ref": ref},
                "level_note": note,
                "technique": "static analysis: " + tech,
            })
        elif pid in NOT_APPLICABLE:
            na.append({"property_id": pid, "reason": NOT_APPLICABLE[pid]})
        else:
            na.append({"property_id": pid, "reason": "not claimed yet: the static check for this property is still "
                                                     "being built (design in DESIGN.md §4); no verdict is given"})
    manifest = {
        "version": 1,
        "setup_cmd": "/venv/bin/python -m compileall -q pst",
        "hooks": {
            "guard": "PERSIM_VERIF",
            "enable": "none needed: static checks read /repo's sources; no instrumentation of persim exists",
            "baseline_off_cmd": "cd /repo && /venv/bin/python -m pytest -ra -q -p no:cacheprovider --timeout=900 "
                                "--continue-on-collection-errors",
            "source_commits": [],
            "add_only": True,
        },
        "engines": [{
            "name": "pst",
            "path": "/verif/pst",
            "serves_properties": [c["property_id"] for c in checks],
            "kind_free_text": "stdlib-ast static analyses of /repo/persim (never imported or executed): loader + "
                              "import/call resolution, inter-procedural ownership/effect analysis, symbolic "
                              "normal-form evaluator with degree/shift/sign/row-dependence facets, CFG/def-use site "
                              "rules; run with /venv/bin/python",
        }],
        "checks": checks,
        "not_applicable": na,
        "notes": "Technique family: static analysis only. Exit codes: 0 pass (KNOWN-FINDING lines allowed), 1 VIOLATION "
                 "(definite refutation not listed in pst/findings/known_findings.json), 2 ANALYSIS-ERROR (anchor "
                 "vanished / unmodelled construct; never reported as a violation).",
    }
    with open(os.path.join(HERE, "MANIFEST.json"), "w") as fh:
        json.dump(manifest, fh, indent=1)
    print(f"MANIFEST.json: {len(checks)} checks, {len(na)} not_applicable")


if __name__ == "__main__":
    sys.exit(main())
