#!/venv/bin/python
"""Regenerate /verif/MANIFEST.json from the table below (one place to keep claims honest)."""
import json
import os
import sys

HERE = os.path.dirname(os.path.dirname(os.path.abspath(__file__)))

CLAUSE = ("Clause-level static decision: the named structural/algebraic parts, each a necessary condition of the "
          "property, are decided for every input at once from the current sources; the behaviour as a whole "
          "(numeric results) is not decided. ")

# id -> (implemented?, technique, level text, level note, design ref)
CHECKS = {
    "C19": (True,
            "inter-procedural ownership/effect (may-alias, may-write) analysis + who-may-call over the call graph; def-use completeness of "
            "memo-cache keys (PU-CACHE); CFG rule on value-less exits whose value is used (PU-NONE); must-analysis over reaching "
            "definitions of arithmetic carried out in the dtype of the caller's arrays (PU-INTARITH); def-use rule on scratch buffers "
            "refilled in part and read whole (BUF-STALE, run by every check); CFG rule on guard flags set around a call and reset outside a finally (ST-FLAG, run by every check); "
            "CFG must-pass-through of reads of lazily computed attributes behind the computation or the computed edge of a marker test (PU-LAZY)",
            CLAUSE + "Decides: no public entry point writes through an argument (PU-ARGS), no method mutates an object "
            "reachable from self in place (PU-CAPT), no module/class/default-argument state is written (PU-STATE), RNG and "
            "pyplot who-may-call (PU-RNG, PU-PLT), integer-closed stores into caller-typed copies and casts of one argument to another's "
            "dtype (PU-DTYPE), module-level memo caches and class-level memo tables keyed by everything they depend on (PU-CACHE: a correct cache is not a "
            "violation, a cache keyed by too little is), no use of the value of a call that can return nothing (PU-NONE), no difference of two caller arrays, product, power or "
            "sum formed while both operands still have the caller's integer dtype (PU-INTARITH: unsigned differences wrap, narrow "
            "products overflow — found F12 and F13 in persim), in-place updates of an object the instance built for itself are "
            "own state, not captured caller data (PU-CAPT, decided from every store to the attribute in the class hierarchy), a "
            "clock reading that only reaches logging calls — also through parameters of helpers — is no source of "
            "non-repeatability (PU-RNG). "
            "PU-SHARE: a mutable module-level object, or a mutable entry of a module-level table, is not stored on an instance or returned without a copy. PU-FLAGS: the writeable flag of a caller's array (an effect on the array object, not a write: fresh views do not count) is put back in a finally, faithfully. PU-CACHE also covers a setter that is bypassed (pattern F), identity-keyed caches validated against the contents (pattern G: the record must hold a private copy) and a cached_property over what a later fit / set_params changes (pattern H); PU-ALIAS: no in-place write into an attribute of `self.copy()` that copy() leaves shared with the original; PU-EQ: no `__eq__` by np.array_equiv (equality after broadcasting); collections.* / weakref containers at module level are module state. PU-LAZY: every public method of the two landscape classes, "
            "and every module-level function handed a landscape, reads what compute_landscape stores lazily (critical_pairs / values / max_depth, read off its stores) only behind the computation. "
            "Declines: bit-identical repeatability of floating-point results.",
            "Trusted: the copy/view/mutator table for external callables in pst/core/own.py; user-supplied weight/kernel "
            "callables are pure by contract; path-insensitive may-analysis (a write behind an infeasible branch would be "
            "reported).",
            "DESIGN.md §3.1, §3.2, §4 C19"),
}

SYMNOTE = ("Trusted: the primitive table of the symbolic evaluator (pst/core/prims.py: value laws of numpy/scipy/sklearn "
           "callables), exact arithmetic, the stated configuration assumptions (non-empty finite diagrams unless a rule "
           "evaluates another configuration). Equality of derived normal forms is decided structurally or by identity "
           "testing of the *derived expressions* at random points (persim is never executed). The evaluator itself is compared with "
           "CPython on its own corpus of micro-programs and of programs over arrays of symbolic length in every run "
           "(selftest/conformance: a disagreement is an analysis error). ")

CHECKS.update({
    "C01": (True, "symbolic abstract interpretation to normal forms (cost-matrix blocks, tiling for all sizes), edge relation of the "
                  "threshold graph as membership predicates, the search followed on bounded candidate lists with a feasibility "
                  "oracle, + CFG/def-use site rules on the threshold search; typestate of one-shot iterators (IT-ONCE: consumed twice on a path, or scanned with an early exit inside a loop that does not make them anew; run by every check on "
                  "the code it analysed)",
            CLAUSE + "Decides BN-COST, BN-TILE (slice stores, paired index-array diagonal stores, pre-filled base with explicit "
            "corner), BN-CAND (every finite cell of the matrix is among the candidate thresholds — the parts handed to np.unique "
            "are enumerated positionally on small sizes), BN-GRAPH (the graph handed to the matching library is {(r, c): D[r, c] <= d} cell by cell — sets of columns "
            "are membership predicates, compared with the thresholded matrix on sizes up to 3+3 with d at / between / below the "
            "entries), BN-DTYPE (no float store into an array typed by a diagram, no cast of one diagram to the other's dtype, no arithmetic between the two diagrams in their own integer dtype), BN-SHORT (no short cut decides the distance on column-wise sorted diagrams), BN-FILTER/WARN, BN-THRESH, BN-PERFECT, BN-BISECT, BN-ORDER, BN-EMPTY (an empty diagram and a diagram whose "
            "points all have an infinite death are both stood in for by one diagonal point): the "
            "augmented matrix is the statement's cost model for every size, and the search's structural invariants hold. "
            "BN-SEARCH (BOUNDED): with the candidate thresholds replaced by a list of n <= 6 (thorough 9) ordered symbols and the "
            "matching library by a monotone feasibility oracle, the search — whatever its shape — returns the smallest feasible "
            "candidate for every n and every position of it. Declines: that Hopcroft-Karp finds a maximum matching, float ties.",
            SYMNOTE + "Hopcroft-Karp returns a maximum matching (dict with both directions).", "DESIGN.md §4 C01"),
    "C02": (True, "symbolic abstract interpretation to normal forms (rotation constants folded, blocks, solver wiring)",
            CLAUSE + "Decides WS-DTYPE (no cast of one diagram to the other's dtype, no float store into a diagram-typed array, no arithmetic between the two diagrams in their own integer dtype), WS-SHORT (no short cut on column-wise sorted diagrams), ST-CACHE (module-level memo caches and class-level memo tables written by the analysed code are keyed by everything they depend on; a public class does not answer from a constructor-time snapshot of a plain public attribute; a setter that invalidates derived state is not bypassed; no cached_property over re-assignable state — run by every check), ST-ALIAS (no in-place write into an attribute of `self.copy()` that the class's copy() leaves shared — run by every check), WS-COST, WS-TILE, WS-FILTER/WARN, WS-SOLVE, WS-EMPTY (empty and all-infinite diagrams), IT-ONCE (no one-shot "
            "iterator is consumed twice on a path). Declines: optimality of the Hungarian "
            "solver, conditioning.", SYMNOTE + "linear_sum_assignment minimises over perfect assignments.",
            "DESIGN.md §4 C02"),
    "C07": (True, "units-of-measure (homogeneity degree) and translation-weight typing of the symbolically evaluated "
                  "distance, plus role-swap comparison of normal forms",
            CLAUSE + "Proves, for all finite non-empty inputs of any size in exact arithmetic: degree-1 homogeneity "
            "(MI-DEG), invariance under diagonal translation (MI-SHIFT), role-swap symmetry of the matrix construction "
            "(MI-SWAP); decides MI-DTYPE (input handling does not cast one diagram to the other's dtype) and MI-DIAG (the blocks of the augmented matrix tile it as the cost model requires, "
            "diagonal-to-diagonal corner 0 — necessary for insensitivity to diagonal points and the closed forms against the "
            "empty diagram). Declines: d(X,X)=0, triangle inequality, diagonal points, closed forms vs the empty diagram, "
            "bottleneck<=Wasserstein (need solver optimality).",
            SYMNOTE + "Index-valued primitives (assignment solver, matching, sort/unique) are scale- and shift-free on "
            "homogeneous input.", "DESIGN.md §3.4, §3.5, §4 C07"),
})

CHECKS.update({
    "C06": (True, "symbolic evaluation with the matching flag left symbolic (non-interference), provenance of row entries, "
                  "identity testing of derived index expressions; MT-TABLE: a matching table of any construction is evaluated "
                  "(its derived expressions, not the code) for small diagrams under every perfect matching the library may have "
                  "accepted, forward and reverse look-ups included; MT-ACCEPT: def-use pairing of the two updates of the search loop "
                  "(matching kept / distance kept) and of the read of a growing holder",
            CLAUSE + "Decides MT-LABELS (the text labels of the rows are not sorted as text on the way to the returned matching), MT-ACCEPT (the matching reported was found at the distance reported), MT-NONINT, MT-COST, MT-MINUS1, MT-DROP, MT-COVER, MT-PROV, MT-GRAPH (the matching is searched in the "
            "thresholded matrix itself, not its transpose or a relabelling) for both functions, whether the rows are "
            "appended one by one or built as a whole table (arange / where / column_stack / masks / stacked slices: the "
            "obligations are read off the element expression of every part, the listing condition is the union of the parts' "
            "row domains). Declines: that max/sum of "
            "the row costs equals the distance (solver optimality) and which optimal matching is returned.",
            SYMNOTE, "DESIGN.md §4 C06"),
    "C14": (True, "symbolic evaluation of the kernel double loop to a ΣΣ normal form; translation-weight and units typing; "
                  "sign analysis of the radicand; HT-MULT (non-accumulating scatter) and the narrowing dataflow (no cast of the "
                  "diagrams' coordinates to single precision: two inter-procedural fixpoints), both with positive examples",
            CLAUSE + "Decides HT-KER (incl. inputs with exact and near ties: conditions that select rows are exercised on both "
            "sides), HT-DIST, HT-SWAP, HT-UNITS, HT-REAL, HT-STATE, HT-ONESIGMA (heat executed with the bandwidth supplied through every parameter that can carry it, the kernel routines observed: all kernel terms of one distance receive one setting), HT-EMPTY (heat evaluated with one empty side does not reduce to the both-empty value), HT-DTYPE (also: the squared distances are not formed in the integer dtype of the input arrays — found F13) and proves HT-SHIFT (row-selecting conditions are typed too) (translation invariance for "
            "every input, exact arithmetic). Declines: exact zeros in floating point, triangle inequality, stability.",
            SYMNOTE + "sigma > 0.", "DESIGN.md §4 C14"),
})

CHECKS.update({
    "C15": (True, "symbolic evaluation with an opaque loop-variant direction; homogeneity-degree and symbolic "
                  "translation-weight typing; normal-form comparison of the projected vectors; loop-summary rules; narrowing "
                  "dataflow (what is single precision / what is reached from the diagrams) for SW-DTYPE",
            CLAUSE + "Proves SW-DEG (linear scaling) and SW-SHIFT (diagonal translation invariance incl. negative "
            "coordinates) for every input in exact arithmetic; decides SW-PROJ, SW-AUG, SW-EMPTY (refute-only: with one empty diagram the function returns a value, it does not raise), SW-AVG (the sweep may be split over helpers of the module: a generator of per-direction costs and an averaging routine — every loop that carries state is read, each must make M trips, the weight must be 1/M of the caller's M), SW-DTYPE (no float store into an array typed by the caller's "
            "data). Declines: <=2*W1, triangle "
            "inequality, diagonal-point insensitivity, quadrature error in M.",
            SYMNOTE + "float32 rounding of the direction vector ignored within 1e-6.", "DESIGN.md §4 C15"),
    "C16": (True, "symbolic evaluation to the entropy normal form under every flag configuration; degree/weight/"
                  "row-symmetry facets; path-condition (guard) equivalence; raise events whose path condition mentions the "
                  "supplied value alone",
            CLAUSE + "Decides PE-FORM (normalised form for n >= 2 bars), PE-GUARD, PE-INF, PE-STYLE (the entry point executed with its flags given by keyword and by position — decorators of the package applied — hands the same settings to the inner routine), PE-LIST (a list of barcodes of different sizes, with and without normalize: entry k is the entropy of barcode k normalised by its own size) and proves PE-INV (scale, translation and order invariance "
            "for every barcode, keep_inf=False). Declines: the numeric bounds 0<=E<=log n.",
            SYMNOTE, "DESIGN.md §4 C16"),
})

CHECKS.update({
    "C20": (True, "receiver-discipline rule over resolved calls (private helpers inlined, star-keyword dictionaries "
                  "expanded) + symbolic evaluation of the plotting functions against an abstract axes: drawing calls logged "
                  "with reachability conditions, coordinate normal forms and style arguments, one call site split into arms "
                  "by the conditions inside its coordinates",
            CLAUSE + "Decides PL-DTYPE (rotated coordinates are not stored into a scratch array typed by an integer diagram), PL-RECV, PL-IDX, PL-FOOT, PL-SEG, PL-MAX (per call site of the highlighted segment), PL-DGM (incl. a plot_only selection with labels: each collection carries its own diagram's label), PL-LIM, PL-LAND (both landscape plots evaluated on a 3-depth "
            "landscape of symbols with a recording axes object, for a depth selection and the default, on a computed landscape and on one built with compute=False whose data "
            "appear only when compute_landscape is called: every line carries the requested depth's own data and label, and "
            "the grid plot also asked for fewer points than the landscape has samples: every drawn sampled value sits at its own grid abscissa, and "
            "nothing is read from the landscape before it is computed). Declines: pixel-level "
            "rendering, single-precision rounding of offsets, legend contents, the 3-D landscape plots (they discard ax).",
            SYMNOTE + "Axes methods draw on their receiver; pyplot functions on the current axes.", "DESIGN.md §4 C20"),
})

CHECKS.update({
    "C13": (True, "literal-table validation (Legendre roots/weights; if-chain or table-driven rules), guard cut-off rule over "
                  "the helper-inlined AST + reaching definitions, units typing and normal forms from partial symbolic "
                  "evaluation, dispatch decided on the observed (stubbed) calls of the closed forms and their path conditions",
            CLAUSE + "Decides KN-DTYPE (no accumulator typed by the coordinates receives the fractional terms), KN-GL and KN-REGIME (by evaluating gauss_legendre_quad at correlations on both sides of each published bound, both signs, and checking the tables it returns; literal readers as fall-back), KN-GUARD, KN-AFF, KN-UNITS, KN-NORM, KN-SBVN, KN-UNI, KN-DISPATCH, KN-STALE (reaching definitions: nothing computed from the un-reflected coordinate "
            "is used after the reflection for negative correlation, whether the reflection re-binds the name or introduces a "
            "new one), KN-PURE. Declines: "
            "monotonicity, range [0,1], tail limits and 1e-7 agreement with a reference CDF for all arguments.",
            SYMNOTE + "Genz's bvnl constants are the specification of the guards and regimes.", "DESIGN.md §4 C13"),
})

CHECKS.update({
    "C17": (True, "site rules over resolved calls on the helper-inlined view (coercion, same-mask restriction on both axes, "
                  "pair enumeration and symmetrisation with a write-set argument for 'never symmetrised', type ladder) "
                  "+ call-graph reachability of random generators; GH-RESULT: the entry point evaluated with the per-pair work "
                  "stubbed for collections of 2, 3, 4, 5 and 7 graphs (chunked pair drivers followed) and the two-argument form; GH-INT: the type chooser evaluated at the "
                  "values around the type limits; GH-MAXD: bound provenance — backward expansion (reaching definitions, parameters into callers' arguments, helper returns, NamedTuple fields and "
                  "single __init__ stores) of the two arguments of the distance-histogram builder along every call path; GH-LABEL: AST def-use rule over every function that receives the two labelled distance matrices",
            CLAUSE + "Decides GH-COERCE, GH-LCC, GH-SYM (incl. a normal form of triangle index pairs — triu/tril_indices(_from), "
            "[::-1], .T — deciding position-by-position transposition), GH-INT, GH-DET, GH-MAXD (the table of `b + 1` columns indexed by `b − distance` is always built with a bound that expands to a maximum covering the matrix it is built from, so no count wraps round to a wrong column — a necessary condition of valid brackets). Declines: that the bounds bracket the distance (C05) "
            "and relabelling invariance of the bounds beyond GH-LABEL (no bound term is the negation of an entry-by-entry comparison of the two labelled distance matrices used as a number: a relabelled copy of one graph would get a positive lower bound; the positive-outcome shortcut is sound and left alone).",
            "Trusted: scipy shortest_path / connected_components semantics; the accepted restriction idioms are DG[m][:, m], "
            "DG[np.ix_(m, m)], DG[m, :][:, m] (anything else is reported as unmodelled, exit 2).", "DESIGN.md §4 C17"),
})

CHECKS.update({
    "C12": (True, "symbolic execution of the constructor, setters and fit on an imager with symbolic ranges/pixel size "
                  "(configuration histories of length 1-3), invariants decided on the derived attribute expressions; "
                  "structural rule against truncated float quotients; boundary-value placement of the spans (a hair above / below / at a "
                  "whole number of pixels) in the coverage test",
            CLAUSE + "Decides GE-DTYPE (no helper array typed by the ranges / pixel size the caller wrote receives fractions), GE-SIB (extent = resolution*pixel, resolution exact/rounded), GE-MESH (resolution+1 nodes, step "
            "= pixel, starting at the covered range), GE-COVER (covers the request, excess < 1 pixel), GE-FIT. Declines: "
            "float-level containment when (hi-lo)/pixel is not exactly representable.",
            SYMNOTE + "Ranges of positive extent, pixel_size > 0.", "DESIGN.md §4 C12"),
})

CHECKS.update({
    "C10": (True, "symbolic evaluation of the segment integrator with a symbolic exponent; sign analysis with branch "
                  "refinement at every power site; degree typing with a symbolic exponent; NM-SHAPES / NM-SUP (bounded): the norms "
                  "evaluated on landscapes of given shapes (1-3 depths, 1-4 critical pairs, level segments) against the definition, "
                  "whatever the traversal (nested loops, flat chain with seams, piece objects); site rules for wiring; NM-DTYPE (dtype-inheritance dataflow over the functions reachable from the norm entry points)",
            CLAUSE + "Decides NM-LAZY (must-pass-through: every read in p_norm / sup_norm of what compute_landscape stores lazily — critical_pairs / values / max_depth, read off its stores — lies behind a call that "
            "always runs compute_landscape(), through the MRO and through decorators of the package, or behind the computed edge of a test on the marker attribute), NM-SIGN, NM-FORM (summand = integral of |line|^p in all three arms), NM-HOM (degree 1), NM-ARMS, "
            "NM-SUP, NM-WIRE (the call of the integrator reached by the default call; calls reached only when an optional parameter is given are a newer option and are not judged), NM-ALLDEPTHS (the loops of _p_norm over depths and segments run to the end), NM-DTYPE (the critical pairs are not laid out in a buffer typed by the landscape's samples). Declines: triangle inequality, stability vs bottleneck, nearly flat segments.",
            SYMNOTE + "Abscissae strictly increasing along a depth; p >= 1.", "DESIGN.md §4 C10"),
})

CHECKS.update({
    "C03": (True, "abstract interpretation of the sweep over the finite domain of end-point orderings (bounded number of bars) + "
                  "ownership analysis of the worklist + normal forms of every emitted critical point over typed bar symbols + "
                  "site rules (copy-of-a-depth, mutate-while-iterating) on the helper-inlined view + symbolic execution of "
                  "the constructor for the degree selection",
            CLAUSE + "Decides LX-COPY, LX-SORT, LX-EDGE, LX-NOCOPY, LX-ITER, LX-DEG (degree selection; the trailing-infinite-bar test reads the death column of the diagram BEFORE the birth-first sort), LX-DTYPE (no sum of two bar end-points in the integer dtype of the input — found F14), LX-INSERT — necessary conditions of the sweep — and, "
            "BOUNDED, LX-SWEEP: for every weak ordering of the end-points of up to 3 bars (423 classes; plus 200 / thorough 1500 "
            "sampled classes of 4 bars) the sweep is followed with all its comparisons decided by the class and the critical "
            "pairs it emits are the k-th largest tent at every depth, and the sweep does not raise (the repeated-bar classes that fail "
            "on the pinned tree are LISTED in pst/findings/k1c_classes.json and reported under known finding K1c; a failing class "
            "that is not on the list is a new violation). The "
            "repeated-bar shortcut violates LX-NOCOPY/LX-ITER today: genuine, test-pinned defect, listed as known findings "
            "K1a/K1b/K1c (any other violation of the same rules is still reported). Declines: diagrams with more bars than the "
            "bound.",
            "Trusted: the Bubenik-Dlotko sweep is the algorithm implemented (a re-implementation yields exit 2, not a "
            "violation); bars have positive length.", "DESIGN.md §4 C03, §5 K1"),
})

CHECKS.update({
    "C04": (True, "symbolic evaluation of _transform with built-in and uninterpreted weight/kernel functions to a per-pixel "
                  "normal form (loop fold, mesh flatten/reshape tracking), compared with the inclusion-exclusion formula; "
                  "fast-path guard decided on the path conditions under which the isotropic / general evaluator is reached "
                  "(observed calls); defaults read from a symbolically constructed imager",
            CLAUSE + "Decides PI-PIXEL (pixel = sum of weight x CDF inclusion-exclusion over the pixel's corners in "
            "birth-persistence coordinates, for every diagram size and grid, for built-in paths and arbitrary user "
            "weight/kernel), PI-AXIS, PI-UNITS, PI-FAST, PI-REG. Declines: CDF values/accuracy (C13), correlated Gaussian path.",
            SYMNOTE + "User weight/kernel callables are element-wise.", "DESIGN.md §4 C04"),
    "C11": (True, "loop-summary (additive fold) and row-dependence analysis of the symbolically evaluated image; call-style "
                  "and serial/parallel agreement decided by symbolic execution of transform with the per-diagram routine "
                  "observed (arguments, order, wrapping); ownership analysis of the conversion sites; AD-MULT: site rule on "
                  "non-accumulating scatter through np.unique's inverse index (with a positive example checked on every run)",
            CLAUSE + "Decides AD-FOLD (additive, order-free, zeros for empty), AD-ZERO, AD-EMPTY, AD-PAR, AD-WRAP (a lone diagram, a one-element collection and a two-element collection, each serially and with n_jobs set: the shape of the result follows the call style only), AD-SKEW. "
            "Declines: non-negativity and pixel-total bounds (CDF monotonicity), bit-identical serial/parallel floats.",
            SYMNOTE + "joblib preserves order.", "DESIGN.md §4 C11"),
})

CHECKS.update({
    "C18": (True, "inter-procedural effect analysis (transform is read-only), call-wiring rule for fit_transform, and "
                  "history-dependence analysis by symbolically executing two successive fits on different generic data (no verdict on "
                  "an inexact run); TF-FIXED: a user-fixed end-point is still the user's symbol after two fits; TF-ORDER: transform / "
                  "fit_transform evaluated on collections of 2-5, 33 and 67 diagrams, serial and n_jobs=2, with the per-diagram routine observed",
            CLAUSE + "Decides TF-RO, TF-CACHE (an attribute rebuilt under a recorded key is a memo, not fitted state: the key must contain every "
            "outside-set attribute the build follows through the class's attribute dependency graph), TF-DATA (fit / transform / fit_transform never write through the data they are given), TF-FT (by evaluation when the call sites are not the plain ones: fit_transform against fit followed by transform — effective birth-persistence coordinates handed to the kernel, fitted geometry, returned value), "
            "TF-ORDER (lists of 2-5 diagrams and a collection given as one stacked array), TF-HIST. The landscaper latches start/stop across fits: genuine defect "
            "kept as known findings K2-start/K2-stop (a latch on any other attribute is still reported). Declines: numerical "
            "equality of outputs across calls.",
            SYMNOTE + "scikit-learn's TransformerMixin.fit_transform is fit(X).transform(X).", "DESIGN.md §4 C18, §5 K2"),
})

CHECKS.update({
    "C09": (True, "inter-procedural effect/ownership analysis over all landscape operators and tools, CFG dominance of the "
                  "lazy-cache stores, symbolic execution of the unary operators, abstract interpretation of the slope merge over the "
                  "finite domain of breakpoint orderings (bounded list lengths), mismatch guards decided on the path "
                  "condition of the statement returning the sum (operands with independent symbolic grids), AR-DTYPE (dtype-inheritance dataflow: a buffer typed by an operand's values must not receive interpolated floats), site rules for "
                  "padding/re-sampling on the helper-inlined view",
            CLAUSE + "Decides AR-RETVAL (no operator takes an operand's data from the return value of a call that can return nothing), AR-EFFECT, AR-OWN, AR-LAZY, AR-GUARD, AR-UNARY, AR-PAD (evaluator-based: what union_vals / "
            "union_crit_pairs return for operands of different depth), AR-SNAP (decided on the constructor calls observed while snap_pl is followed on two landscapes with independent symbolic "
            "grids), AR-FLAGS (operands frozen while they are read come back with the flag they had), AR-LAZYREAD (operators compute lazily built operands before reading anything compute_landscape stores, of either operand), AR-LC, AR-DEFAULT, AR-STYLE (the landscape tools executed with the grid given by keyword and by position, the tool they hand over to observed: the grid that arrives is the one asked for), and — BOUNDED — AR-MERGE: the "
            "slope merge (pos_to_slope_interp / sum_slopes / slope_to_pos_interp through union_crit_pairs) is followed for every "
            "ordering class (interleaving with ties) of the breakpoints of two depths with up to 3 breakpoints each (thorough: "
            "4; 126 / 787 classes), symbolic ordinates, and equals f_A + f_B at every breakpoint of the union. Declines: the "
            "merge for operands with more breakpoints than the bound.",
            SYMNOTE + "Result objects may share un-mutated depth lists with operands (reported, not a violation).",
            "DESIGN.md §4 C09"),
})

CHECKS.update({
    "C08": (True, "symbolic abstract interpretation of compute_landscape (nearest-node reductions, value->position tables, "
                  "per-node sample lists, induction-variable closed forms of loop counters) with the derived per-bar sample "
                  "sites compared with the tent function and the derived packing compared with 'k-th largest per node'; "
                  "delegation wiring decided by symbolic execution of the transformer with the landscape constructor "
                  "observed; site rules with resolved calls on the helper-inlined view: sibling agreement of grid "
                  "reconstructions, nearest-node selection pattern, None-vs-truthiness defaults",
            CLAUSE + "Decides GL-ALLBARS (the loop over the bars of the diagram is not left by break / return: every bar reaches the landscape), GL-RAMP (every bar puts exactly one sample step*min(k-NB, ND-k) on every node k strictly between "
            "the nearest nodes NB, ND of its end-points, and nothing else), GL-PACK (row k of `values` is the (k+1)-st largest "
            "sample over each node, 0 where there are fewer, depth = largest count), GL-VEC (exact->grid: row d is np.interp of "
            "depth d's own breakpoints at the nodes of linspace(start, stop, num_steps), parameters forwarded, defaults = "
            "support of the first depth), GL-INDEX, GL-SNAP (nearest node per "
            "coordinate, same axis), GL-FWD (also: a collection with an empty diagram in a lower degree reaches the constructor with every diagram in its place), GL-GRID, GL-DV, GL-INF, GL-DEFAULT. Together GL-SNAP+GL-RAMP+GL-PACK are the code's "
            "side of the half-step bound; the bound itself (an inequality over real values) and exactness on-grid as numeric "
            "statements are NOT decided.",
            "Trusted: np.linspace / np.interp semantics. Rules see through private helpers, temporaries and renaming; a "
            "restructuring beyond that yields refutations only for the listed deviations, otherwise exit 2.",
            "DESIGN.md §4 C08"),
})

NOT_APPLICABLE = {
    "C05": "soundness of the mGH lower/upper bounds is a theorem about computed values for every graph pair and RNG "
           "draw; no ownership, ordering, wiring or algebraic-type argument implies it (DESIGN.md §6); nearby "
           "structural facts are claimed under C17/C19",
}

ALL = ["C%02d" % i for i in range(1, 21)]


def main():
    checks = []
    na = []
    for pid in ALL:
        if pid in CHECKS and CHECKS[pid][0]:
            _, tech, text, note, ref = CHECKS[pid]
            checks.append({
                "property_id": pid,
                "quick_cmd": f"/venv/bin/python -m pst.check {pid} --tier quick",
                "thorough_cmd": f"/venv/bin/python -m pst.check {pid} --tier thorough",
                "evidence_file": f"/verif/evidence/{pid}.json",
                "replay_cmd_template": f"/venv/bin/python -m pst.check {pid} --explain {{path}}",
                "engine": "pst",
                "level_claimed": {"category": "other", "text": text, "design_ref": ref},
                "level_note": note,
                "technique": "static analysis: " + tech,
            })
        elif pid in NOT_APPLICABLE:
            na.append({"property_id": pid, "reason": NOT_APPLICABLE[pid]})
        else:
            na.append({"property_id": pid, "reason": "not claimed yet: the static check for this property is still "
                                                     "being built (design in DESIGN.md §4); no verdict is given"})
    manifest = {
        "version": 1,
        "setup_cmd": "/venv/bin/python -m compileall -q pst",
        "hooks": {
            "guard": "PERSIM_VERIF",
            "enable": "none needed: static checks read /repo's sources; no instrumentation of persim exists",
            "baseline_off_cmd": "cd /repo && /venv/bin/python -m pytest -ra -q -p no:cacheprovider --timeout=900 "
                                "--continue-on-collection-errors",
            "source_commits": [],
            "add_only": True,
        },
        "engines": [{
            "name": "pst",
            "path": "/verif/pst",
            "serves_properties": [c["property_id"] for c in checks],
            "kind_free_text": "stdlib-ast static analyses of /repo/persim (never imported or executed): loader + "
                              "import/call resolution, inter-procedural ownership/effect analysis, symbolic "
                              "normal-form evaluator with degree/shift/sign/row-dependence facets, CFG/def-use site "
                              "rules; run with /venv/bin/python",
        }],
        "checks": checks,
        "not_applicable": na,
        "notes": "Technique family: static analysis only. Exit codes: 0 pass (KNOWN-FINDING lines allowed), 1 VIOLATION "
                 "(definite refutation not listed in pst/findings/known_findings.json), 2 ANALYSIS-ERROR (anchor "
                 "vanished / unmodelled construct; never reported as a violation).",
    }
    with open(os.path.join(HERE, "MANIFEST.json"), "w") as fh:
        json.dump(manifest, fh, indent=1)
    print(f"MANIFEST.json: {len(checks)} checks, {len(na)} not_applicable")


if __name__ == "__main__":
    sys.exit(main())
