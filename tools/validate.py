#!/usr/bin/env python3
"""Validate MANIFEST.json and every evidence file against the schemas (tooling venv: jsonschema)."""
import json, glob, sys
import jsonschema
ms = json.load(open('/root/.vp/MANIFEST.schema.json'))
es = json.load(open('/root/.vp/EVIDENCE.schema.json'))
m = json.load(open('/verif/MANIFEST.json'))
jsonschema.validate(m, ms)
print('MANIFEST ok')
bad = 0
for c in m['checks']:
    try:
        e = json.load(open(c['evidence_file']))
        jsonschema.validate(e, es)
        print(c['property_id'], 'evidence ok', e['coverage'].get('obligations'), e['coverage'].get('distinct_nontrivial'))
    except Exception as ex:
        bad += 1
        print(c['property_id'], 'EVIDENCE INVALID', str(ex)[:300])
sys.exit(1 if bad else 0)
