#!/bin/bash
# usage: mut.sh <PID> <file-relative-to-persim> <python-regex-or-literal-old> <new>   (literal replace, first occurrence)
set -e
D=$(mktemp -d /tmp/pstmut.XXXX)
cp -r /repo/persim $D/persim
/venv/bin/python - "$D/persim/$2" "$3" "$4" <<'PY'
import sys
p,old,new=sys.argv[1:4]
s=open(p).read()
assert old in s, "pattern not found: "+old
open(p,'w').write(s.replace(old,new,1))
PY
cd /verif && /venv/bin/python -m pst.check $1 --repo $D 2>&1 | grep -v WARNING | cut -c1-330 | head -${5:-8}
echo "exit=${PIPESTATUS[0]}"
rm -rf $D
