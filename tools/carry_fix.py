#!/usr/bin/env python3
"""carry_fix.py <old-commit> <diff>...  — re-base stored diffs whose hunks overlap the F12/F13 fix lines.

The variant is built on the old tree, the one-line fixes (np.array(dgm, dtype=float) on entry of bottleneck / heat) are carried
into the variant's version of those files by the same textual edit, and the diff against /repo HEAD is written back."""
import os, re, subprocess, sys, shutil, tempfile

old = sys.argv[1]
PAT = re.compile(r"np\.(array|asarray|asanyarray)\((dgm1|dgm2|dgm|PD1|PD2|I1|I2|d1|d2)\)")
for f in sys.argv[2:]:
    W = tempfile.mkdtemp(prefix="carry_")
    try:
        subprocess.run(f"git -C /repo archive {old} persim | tar -x -C {W}", shell=True, check=True)
        r = subprocess.run(f"cd {W} && patch -s -p1 < /verif/{f}", shell=True, capture_output=True)
        if r.returncode:
            print("NOAPPLY", f); continue
        H = tempfile.mkdtemp(prefix="head_")
        subprocess.run(f"git -C /repo archive HEAD persim | tar -x -C {H}", shell=True, check=True)
        touched = [l[6:].strip() for l in open(f"/verif/{f}") if l.startswith("+++ b/")]
        n_sub = 0
        # files the variant does not touch are HEAD's
        for root, _, files in os.walk(os.path.join(H, "persim")):
            for x in files:
                rel = os.path.relpath(os.path.join(root, x), H)
                if rel not in touched:
                    os.makedirs(os.path.dirname(os.path.join(W, rel)), exist_ok=True)
                    shutil.copy(os.path.join(root, x), os.path.join(W, rel))
        for t in touched:
            if t == "persim/landscapes/exact.py":
                # F14: the sweep reads the stored diagram as floats
                s_ = open(os.path.join(W, t)).read()
                if "        A = self.dgms\n" in s_:
                    s2 = s_.replace("        A = self.dgms\n",
                                    "        # work on floats: sums such as (b + d) / 2 wrap around in a narrow\n"
                                    "        # integer dtype (uint8 diagrams)\n"
                                    "        A = np.asarray(self.dgms, dtype=float)\n", 1)
                    k = 1
                else:
                    s2, k = re.subn(r"np\.asarray\(self\.dgms\)", "np.asarray(self.dgms, dtype=float)", s_)
                    if not k:
                        s2, k = re.subn(r"(?<![\w.])self\.dgms(?=\)|\])", "np.asarray(self.dgms, dtype=float)", s_)
                n_sub += k
                open(os.path.join(W, t), "w").write(s2)
            if t in ("persim/bottleneck.py", "persim/heat.py"):
                s = open(os.path.join(W, t)).read()
                s2, k = PAT.subn(lambda m: f"np.{m.group(1)}({m.group(2)}, dtype=float)", s)
                n_sub += k
                open(os.path.join(W, t), "w").write(s2)
        for root, _, files in os.walk(W):
            for x in files:
                if x.endswith(".orig") or x.endswith(".rej"):
                    os.remove(os.path.join(root, x))
        d = subprocess.run(f"diff -ruN {H}/persim {W}/persim", shell=True, capture_output=True, text=True).stdout
        out = []
        for line in d.splitlines(keepends=True):
            if line.startswith("diff -ruN "):
                rel = line.split()[-1][len(W) + 1:]
                out.append(f"diff --git a/{rel} b/{rel}\n")
            elif line.startswith("--- " + H) or line.startswith("--- /dev/null"):
                out.append(f"--- a/{rel}\n")
            elif line.startswith("+++ " + W) or line.startswith("+++ /dev/null"):
                out.append(f"+++ b/{rel}\n")
            else:
                out.append(line)
        open(f"/verif/{f}", "w").write("".join(out))
        print("CARRIED", f, "substitutions:", n_sub)
        shutil.rmtree(H)
    finally:
        shutil.rmtree(W, ignore_errors=True)
