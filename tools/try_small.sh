#!/bin/bash
# usage: try_small.sh S1 [--no-suite] — six small behaviour-preserving patches from a sub-agent: suite + harness with all six,
# then every check on each patch applied alone to the worktree (/repo is not touched)
ID=$1
W=/tmp/wt_$ID; S=/tmp/ref_$ID
ls $S/p1.diff >/dev/null 2>&1 || { echo "no patches for $ID"; exit 1; }
cd $W; git reset -q; git checkout -q -- .; git clean -fdq persim
if [ "$2" != "--no-suite" ]; then
  ok=1; for k in 1 2 3 4 5 6; do [ -f $S/p$k.diff ] && { git apply $S/p$k.diff || { echo "p$k does not apply together with the others"; ok=0; }; }; done
  echo -n "$ID all six: suite: "; PYTHONPATH=$W /venv/bin/python -m pytest -q -p no:cacheprovider --timeout=900 2>&1 | tail -1
  echo -n "$ID equiv: "; PYTHONPATH=$W MPLBACKEND=Agg timeout 900 /venv/bin/python $S/equiv.py > /tmp/equiv_$ID.out 2>&1; echo "exit=$? $(grep -E 'PASS|FAIL' /tmp/equiv_$ID.out | tail -1)"
  git reset -q; git checkout -q -- .; git clean -fdq persim
fi
for k in 1 2 3 4 5 6; do
  [ -f $S/p$k.diff ] || continue
  cd $W; git checkout -q -- .; git clean -fdq persim; git apply $S/p$k.diff || { echo "$ID p$k: does not apply alone"; continue; }
  cd /verif
  printf "%s\n" C01 C02 C03 C04 C06 C07 C08 C09 C10 C11 C12 C13 C14 C15 C16 C17 C18 C19 C20 | xargs -P 16 -I{} sh -c \
    "/venv/bin/python -m pst.check {} --repo $W --dry > /tmp/smallrun_${ID}_{}.txt 2>&1; echo \$? > /tmp/smallrun_${ID}_{}.rc"
  out=""
  for c in C01 C02 C03 C04 C06 C07 C08 C09 C10 C11 C12 C13 C14 C15 C16 C17 C18 C19 C20; do
    e=$(cat /tmp/smallrun_${ID}_$c.rc)
    if [ "$e" != "0" ]; then out="$out\n    $c exit=$e: $(grep -E ' rule=|ANALYSIS-ERROR' /tmp/smallrun_${ID}_$c.txt | head -2 | cut -c1-230)"; fi
  done
  echo -e "$ID p$k ($(grep '^+++ ' $S/p$k.diff | sed 's/+++ b\///' | tr '\n' ' '), $(grep -c '^[+-][^+-]' $S/p$k.diff) lines):${out:- silent}"
done
rm -f /tmp/smallrun_${ID}_*
