#!/bin/bash
# usage: try_ref.sh R1 [--no-suite] — verify a behaviour-preserving refactor from a sub-agent (suite + its own
# equivalence harness) and run every check against the refactored worktree (/repo is not touched)
ID=$1
W=/tmp/wt_$ID; S=/tmp/ref_$ID
[ -f $S/patch.diff ] || { echo "no patch for $ID"; exit 1; }
echo "== $ID: touches: $(grep '^+++ ' $S/patch.diff | tr '\n' ' ') ($(grep -c '^[+-][^+-]' $S/patch.diff) changed lines)"
cd $W; git checkout -q -- . ; git reset -q; git clean -fdq persim; git apply $S/patch.diff || { echo "patch does not apply"; exit 1; }
if [ "$2" != "--no-suite" ]; then
echo -n "suite: "; PYTHONPATH=$W /venv/bin/python -m pytest -q -p no:cacheprovider --timeout=900 2>&1 | tail -1
echo -n "equiv: "; PYTHONPATH=$W MPLBACKEND=Agg timeout 900 /venv/bin/python $S/equiv.py > /tmp/equiv_$ID.out 2>&1; echo "exit=$? $(grep -E 'PASS|FAIL' /tmp/equiv_$ID.out | tail -1)"
fi
cd /verif
printf "%s\n" C01 C02 C03 C04 C06 C07 C08 C09 C10 C11 C12 C13 C14 C15 C16 C17 C18 C19 C20 | xargs -P 16 -I{} sh -c \
  "/venv/bin/python -m pst.check {} --repo $W --dry > /tmp/refrun_${ID}_{}.txt 2>&1; echo \$? > /tmp/refrun_${ID}_{}.rc"
for c in C01 C02 C03 C04 C06 C07 C08 C09 C10 C11 C12 C13 C14 C15 C16 C17 C18 C19 C20; do
  e=$(cat /tmp/refrun_${ID}_$c.rc)
  if [ "$e" != "0" ]; then echo "  $c exit=$e: $(grep -E ' rule=|ANALYSIS-ERROR' /tmp/refrun_${ID}_$c.txt | head -3 | cut -c1-300)"; fi
done
rm -f /tmp/refrun_${ID}_*.rc
