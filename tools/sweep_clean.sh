#!/bin/bash
# usage: sweep_clean.sh [dir-glob ...]  — every stored behaviour-preserving variant (hidden/*/clean.diff, refactors/*/patch.diff,
# refactors/small/*/*.diff; or the files named in $ONLY) × every check (or those named in $CHECKS); prints the runs that exit 1 (false alarms)
T=$(mktemp -d /tmp/sweep.XXXX)
ls ${ONLY:-/verif/hidden/*/clean.diff /verif/refactors/*/patch.diff /verif/refactors/small/*/*.diff} 2>/dev/null > $T/list
n=0
while read f; do
  n=$((n+1)); d=$T/v$n; mkdir -p $d; cp -r /repo/persim $d/; (cd $d && patch -s -p1 < $f >/dev/null 2>&1) || { echo "does not apply: $f"; continue; }
  echo "$d $f" >> $T/dirs
done < $T/list
while read d f; do for c in ${CHECKS:-C01 C02 C03 C04 C06 C07 C08 C09 C10 C11 C12 C13 C14 C15 C16 C17 C18 C19 C20}; do echo "$d $c $f"; done; done < $T/dirs > $T/jobs
cat $T/jobs | xargs -P 15 -L 1 sh -c 'cd /verif; out=$(/venv/bin/python -m pst.check $1 --repo $0 --dry 2>&1); e=$?; if [ $e = 1 ]; then echo "FALSE-ALARM $1 $2: $(echo "$out" | grep " rule=" | head -1 | cut -c1-220)"; fi' 
echo "sweep done: $(wc -l < $T/jobs) runs"
rm -rf $T
